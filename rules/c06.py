"""C06 — the batching channel neither loses, duplicates nor reorders accepted items.

The conclusion over all interleavings is argued from premises decided here: every transfer of items is a
move performed inside one critical section of one mutex, by generic code that cannot clone or inspect items."""
from . import batcher, common, mir


OVERLAYS = ('K3',)


def run(chk):
    P = mir.Program("K1")
    chk.use_program(P)
    chk.explain("Rules over built MIR of emit_batcher (the async receiver is analysed before coroutine lowering, with "
                "Yield terminators): R1 one critical section of the state mutex per sender operation and per receive "
                "iteration, and the is_open value deciding termination is read in the same section as the emptiness "
                "test; R2 the pending batch is taken whole by mem::replace with a fresh, never-filled batch under the "
                "lock on the non-empty edge; R3 who may push/clear/replace the pending batch and its watchers and write "
                "each flag, truncation counted on exactly the clearing paths; R4 a retry re-submits the remainder "
                "returned by the processor with the same batch's watchers, the processor gets the channel by move; R5 "
                "parametricity (T: Channel only), no Clone for Receiver, exec consumes the receiver, no spawn.")
    chk.trust("rustc nightly; Mutex exclusivity; mem::replace/take semantics")
    chk.assume("the linearisation argument from these premises is a paper step; T's own Channel impl is checked under C09.R5; wasm32 arms not analysed")
    chk.exhaustive = True
    batcher.one_critical_section(chk, P, "C06")
    batcher.swap_rule(chk, P, "C06")
    batcher.who_may(chk, P, "C06")
    batcher.state_stays_inside(chk, P, "C06")
    batcher.constructor_rule(chk, P, "C06")
    batcher.retry_remainder(chk, P, "C06")
    batcher.batch_error_helpers(chk, P, "C06")
    batcher.bounded_retry(chk, P, "C06.retry")
    batcher.parametricity(chk, P, "C06")
    batcher.receiver_flags(chk, P, "C06")
    batcher.termination(chk, P, "C06")
    batcher.capacity_hint(chk, P, "C06")
    batcher.metrics_accounting(chk, P, "C06")
    # the only loss the property allows is the counted truncation in send: the entry points themselves are part of it
    batcher.send_rules(chk, P, "C06.send")
    batcher.lossless_variants(chk, P, "C06.send")
    common.arg_agreement_rule(chk, P, "C06", [("emit_batcher", None)], 3)
    from . import witness
    witness.witness_rule(chk, "C06", 5)
    if not getattr(chk, "_overlay", None):
        common.linear_types_rule(chk, P, "C06.R4:halves-are-linear", "the channel halves cannot be copied (dropping one copy would close the channel under the other)",
                                 {"emit_batcher::Sender": "Drop for Sender closes the channel: the first copy dropped stops the receiver while the others still send, "
                                                          "their items are discarded and a flush reports success at once",
                                  "emit_batcher::Receiver": "two receivers would take batches concurrently and both clear is_in_batch"})
    from . import shapes
    shapes.retry_when_nonempty(chk, P, "C06.R4:retry-when-nonempty")
    shapes.returns_binop(chk, P, "C06.R1:Channel::is_empty", "the provided Channel::is_empty is `len() == 0`", "emit_batcher::Channel::is_empty", "Eq",
                         lambda o, b: o[0] == "call" and o[1].callee.get("name") == "len", lambda o, b: mir.o_const_value(o) == 0,
                         "a channel would report itself empty exactly when it holds items")
    return chk
