"""Facts cache: run the mirfacts driver over /repo's *current working tree* and load the JSON.

Facts are keyed by a content hash of every tracked-looking source file under /repo, so any
edit forces a re-extraction; an unchanged tree re-uses the facts (flock'd so that several
checks started together extract once).  Nothing from emit is executed: `cargo check` type-checks
and builds MIR only.
"""
import fcntl
import glob
import hashlib
import json
import os
import pickle
import shutil
import subprocess
import sys
import time

VERIF = os.path.dirname(os.path.dirname(os.path.abspath(__file__)))
REPO = os.environ.get("VERIF_REPO", "/repo")
WORK = os.environ.get("VERIF_WORK") or os.path.join(VERIF, ".work")
DRIVER = os.path.join(VERIF, "engines", "mirfacts", "target", "release", "mirfacts")

LIB_CRATES = ["emit", "emit_core", "emit_macros", "emit_batcher", "emit_file", "emit_otlp",
              "emit_term", "emit_traceparent"]

# configuration id -> (cargo args, crates to dump, expected fact files as (crate, predicate))
CONFIGS = {
    # the configuration the test-suite builds (unified workspace features)
    "K1": dict(args=["check", "--workspace"], crates=LIB_CRATES),
    # macro call-site corpus: the repository's own ui tests, compiled (never run) with --tests
    "K4": dict(args=["check", "-p", "emit_test_ui", "--tests", "--features",
                     "std,sval,serde,implicit_rt,implicit_internal_rt"],
               crates=["emit_test_ui"]),
    # no-std / alloc-only arms
    "K2a": dict(args=["check", "-p", "emit_core", "--no-default-features"], crates=["emit_core"]),
    "K2b": dict(args=["check", "-p", "emit", "--no-default-features", "--features", "alloc"],
                crates=["emit", "emit_core"]),
    # batcher without tokio
    "K3": dict(args=["check", "-p", "emit_batcher"], crates=["emit_batcher"]),
    # the OTLP emitter without its default features (no gzip, no tls): the `#[cfg(not(feature = ..))]` arms of the HTTP layer
    "K5": dict(args=["check", "-p", "emit_otlp", "--no-default-features"], crates=["emit_otlp"]),
}


def sysroot():
    return subprocess.check_output(["rustc", "+nightly", "--print", "sysroot"], text=True).strip()


def tree_hash():
    h = hashlib.sha256()
    files = []
    for root, dirs, fs in os.walk(REPO):
        dirs[:] = sorted(d for d in dirs if d not in ("target", ".git", "book", "asset", ".idea"))
        for f in sorted(fs):
            if f.endswith(".rs") or f in ("Cargo.toml", "Cargo.lock") or f.endswith(".proto"):
                files.append(os.path.join(root, f))
    for p in files:
        h.update(os.path.relpath(p, REPO).encode())
        h.update(b"\0")
        with open(p, "rb") as fh:
            h.update(fh.read())
        h.update(b"\0")
    # the driver itself is part of the key
    try:
        with open(os.path.join(VERIF, "engines", "mirfacts", "src", "main.rs"), "rb") as fh:
            h.update(fh.read())
    except OSError:
        pass
    return h.hexdigest()[:20]


def ensure_driver():
    if os.path.exists(DRIVER) and os.path.getmtime(DRIVER) >= os.path.getmtime(
            os.path.join(VERIF, "engines", "mirfacts", "src", "main.rs")):
        return
    env = dict(os.environ, CARGO_NET_OFFLINE="true")
    subprocess.check_call(["cargo", "+nightly", "build", "--release", "--offline"],
                          cwd=os.path.join(VERIF, "engines", "mirfacts"), env=env,
                          stdout=subprocess.DEVNULL, stderr=subprocess.DEVNULL)


def _extract(config, outdir):
    cfg = CONFIGS[config]
    target = os.path.join(WORK, "target")
    os.makedirs(target, exist_ok=True)
    # force the wrapper to run for every workspace member (cargo would otherwise replay a
    # cached result and skip the driver)
    for prof in glob.glob(os.path.join(target, "debug", ".fingerprint")):
        for d in os.listdir(prof):
            if d.startswith("emit"):
                shutil.rmtree(os.path.join(prof, d), ignore_errors=True)
    env = dict(os.environ)
    env.update({
        "LD_LIBRARY_PATH": os.path.join(sysroot(), "lib"),
        "RUSTFLAGS": "-Zmir-opt-level=0 -Awarnings",
        "RUSTC_WORKSPACE_WRAPPER": DRIVER,
        "MIRFACTS_OUT": outdir,
        "MIRFACTS_CRATES": ",".join(cfg["crates"]),
        "CARGO_TARGET_DIR": target,
        "CARGO_NET_OFFLINE": "true",
    })
    cmd = ["cargo", "+nightly"] + cfg["args"] + ["--offline"]
    p = subprocess.run(cmd, cwd=REPO, env=env, stdout=subprocess.PIPE, stderr=subprocess.STDOUT, text=True)
    if p.returncode != 0:
        sys.stderr.write(p.stdout[-6000:])
        raise SystemExit("mirfacts: `%s` failed on /repo's working tree (exit %d): the tree does not "
                         "compile, so no property can be decided" % (" ".join(cmd), p.returncode))


def ensure(config="K1"):
    """Return the directory holding the fact files of `config` for the current tree."""
    ensure_driver()
    th = tree_hash()
    base = os.path.join(WORK, "facts", th)
    outdir = os.path.join(base, config)
    done = os.path.join(outdir, ".done")
    os.makedirs(os.path.join(WORK, "facts"), exist_ok=True)
    if os.path.exists(done):
        return outdir, th
    lock = open(os.path.join(WORK, "extract.lock"), "w")
    fcntl.flock(lock, fcntl.LOCK_EX)
    try:
        if not os.path.exists(done):
            if os.path.isdir(outdir):
                shutil.rmtree(outdir)
            os.makedirs(outdir)
            _extract(config, outdir)
            n = len(glob.glob(os.path.join(outdir, "*.json")))
            if n < len(set(CONFIGS[config]["crates"])):
                raise SystemExit("mirfacts: expected fact files for %s, found %d" % (CONFIGS[config]["crates"], n))
            open(done, "w").write(str(time.time()))
            _prune(th)
    finally:
        fcntl.flock(lock, fcntl.LOCK_UN)
        lock.close()
    return outdir, th


def _prune(keep):
    root = os.path.join(WORK, "facts")
    ds = [d for d in os.listdir(root) if os.path.isdir(os.path.join(root, d)) and d != keep and d != "test"]
    ds.sort(key=lambda d: os.path.getmtime(os.path.join(root, d)))
    for d in ds[:-3]:
        shutil.rmtree(os.path.join(root, d), ignore_errors=True)


def load(config="K1"):
    """Load all fact files of a configuration -> list of crate dicts."""
    outdir, th = ensure(config)
    cache = os.path.join(outdir, "all.pickle")
    if os.path.exists(cache):
        try:
            with open(cache, "rb") as fh:
                return pickle.load(fh), th
        except Exception:
            pass
    crates = []
    for f in sorted(glob.glob(os.path.join(outdir, "*.json"))):
        with open(f) as fh:
            crates.append(json.load(fh))
    tmp = cache + ".tmp%d" % os.getpid()
    with open(tmp, "wb") as fh:
        pickle.dump(crates, fh, protocol=pickle.HIGHEST_PROTOCOL)
    os.replace(tmp, cache)
    return crates, th


if __name__ == "__main__":
    for c in sys.argv[1:] or ["K1"]:
        t = time.time()
        d, th = ensure(c)
        print(c, d, "%.1fs" % (time.time() - t))
