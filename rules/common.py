"""Rule building blocks shared by several properties."""
import re

from . import mir
from .mir import o_str

THROUGH = ("deref", "deref_mut", "as_ref", "as_mut", "borrow", "borrow_mut", "by_ref", "as_deref")


def roots(o, acc=None, depth=0):
    """All leaves an origin is computed from: ('param', i), ('capture', n), ('callsite', CallSite),
    ('const', v), ('local', i).  Call results contribute the call itself *and* the roots of its
    arguments (a value derived from `evt` by `evt.to_event().erase()` still roots in `evt`)."""
    if acc is None:
        acc = set()
    if depth > 30:
        return acc
    k = o[0]
    if k == "param":
        acc.add(("param", o[1]))
    elif k == "capture":
        acc.add(("capture", o[1]))
    elif k == "const":
        st = (o[1].get("v") or {}).get("static") if isinstance(o[1].get("v"), dict) else None
        acc.add(("const", mir.o_const_value(o) if mir.o_const_value(o) is not None else (st or o[1].get("def") or o[1].get("fn") or o[1].get("ty"))))
    elif k == "call":
        cs = o[1]
        acc.add(("callsite", cs.bb))
        for a in cs.args:
            roots(cs.body.origin(a), acc, depth + 1)
    elif k in ("field", "downcast", "index", "cast", "discr", "repeat"):
        roots(o[1], acc, depth + 1)
    elif k == "agg":
        for x in o[2]:
            roots(x, acc, depth + 1)
    elif k == "phi":
        for x in o[1]:
            roots(x, acc, depth + 1)
    elif k == "binop":
        roots(o[2], acc, depth + 1)
        roots(o[3], acc, depth + 1)
    elif k == "unop":
        roots(o[2], acc, depth + 1)
    elif k == "local":
        acc.add(("local", o[1]))
    return acc


def has_root(o, kind, val):
    return (kind, val) in roots(o)


def norm_method(name):
    if name is None:
        return None
    return name[len("dispatch_"):] if name.startswith("dispatch_") else name


def origin_is_self_derived(body, op):
    """The operand derives from `self` (param 1) through derefs, fields and identity-like calls."""
    ident = THROUGH + ("left", "right", "emitter", "wrapping", "as_super", "as_any", "inner", "get_ref")
    o = body.origin(op, through_calls=lambda n: n is not None and (n in ident or n.startswith("erase_")))
    r, _ = mir.o_field_path(o)
    return r[0] == "param" and r[1] == 1, o


def forward_check(body, name=None, min_calls=1, max_calls=1, check_params=True, check_return=True,
                  callee_pred=None):
    """Generic forwarding discipline for `body` (a method of a wrapper impl):
    on every normal path, exactly one call of the same-named (modulo `dispatch_`) method whose
    receiver derives from self; every further parameter flows into the call; the result is returned.
    Returns (ok, detail, sites)."""
    want = norm_method(name or body.method or body.name)

    def is_fwd(cs):
        if "indirect" in cs.callee:
            return False
        if norm_method(cs.callee.get("name")) != want:
            return False
        if callee_pred is not None and not callee_pred(cs):
            return False
        if not cs.args:
            return False
        ok, _ = origin_is_self_derived(body, cs.args[0])
        return ok

    sites = body.calls(is_fwd, normal_only=True)
    if not sites:
        return False, "no call of `%s` on a receiver derived from self in %s" % (want, body.key), [], body.span
    cnt = body.count_on_paths({c.bb for c in sites})
    if cnt is None:
        return False, "no normal return path in %s" % body.key, [], body.span
    mn, mx = cnt
    if mn < min_calls or mx > max_calls:
        return False, ("`%s` is forwarded between %s and %s times on a path through %s (expected exactly %d..%d): "
                       "sites %s" % (want, mn, mx, body.key, min_calls, max_calls, [c.loc for c in sites])), \
            sites, sites[0].loc
    if check_params:
        for cs in sites:
            # every non-self parameter must reach the forwarded call
            flows = set()
            for a in cs.args[1:]:
                flows |= roots(body.origin(a))
            for p in range(2, body.argc + 1):
                if ("param", p) not in flows:
                    return False, ("parameter `%s` of %s does not flow into the forwarded call at %s (arguments: %s)"
                                   % (body.local_name(p) or p, body.key, cs.loc,
                                      [o_str(body.origin(a)) for a in cs.args[1:]])), sites, cs.loc
    if check_params:
        # an event is handed on as it is: only views of it (to_event / by_ref / erase ...), never an event re-assembled from parts
        PASS = ("to_event", "erase", "by_ref", "borrow", "as_ref", "deref", "clone", "into", "from")
        for cs in sites:
            for p in range(2, body.argc + 1):
                if body.local_name(p) != "evt":
                    continue
                for a in cs.args[1:]:
                    o = body.origin(a)
                    if ("param", p) not in roots(o):
                        continue
                    x = o
                    d = 0
                    while d < 12:
                        d += 1
                        if x[0] == "param":
                            break
                        if x[0] == "call" and x[1].callee.get("name") in PASS and x[1].args:
                            x = body.origin(x[1].args[0])
                            continue
                        return False, ("%s hands on %s instead of the event it was given (or a view of it): what the inner filter/emitter "
                                       "sees - e.g. its extent - can differ from what the caller passed" % (body.key, o_str(o))), sites, cs.loc
    if check_return and body.local_ty(0) not in ("()", "!"):
        bad = []
        for rb in body.return_blocks():
            for path in body.acyclic_paths(0, rb, limit=5000):
                ps = mir.PathSummary(body, path)
                r = ps.ret(through_calls=("branch", "from_residual", "from_output"))
                on_path = [c for c in sites if c.bb in ps.pos]
                rs = roots(r)
                if not any(("callsite", c.bb) in rs for c in on_path):
                    bad.append((path, o_str(r)))
        if bad:
            return False, ("%s returns `%s`, which is not the result of its forwarded `%s` call" %
                           (body.key, bad[0][1], want)), sites, sites[0].loc
    return True, "forwards `%s` once per path" % want, [c.loc for c in sites]


WRAPPER_SELF_RE = re.compile(
    r"^(&'?\w* ?(mut )?\w+$|&(mut )?\w+$|alloc::boxed::Box<\w+>$|alloc::sync::Arc<\w+>$|alloc::rc::Rc<\w+>$|"
    r"\(dyn .*\)$|dyn .*|emit_core::runtime::AssertInternal<\w+>$)")


def is_wrapper_self(self_ty):
    return bool(self_ty) and bool(WRAPPER_SELF_RE.match(self_ty))


def is_dispatch_impl(body):
    """`impl<T: X> internal::DispatchX for T` — the erased-to-generic bridge."""
    return bool(body.trait) and "::internal::Dispatch" in body.trait


def const_return(body):
    """If every normal path returns the same evaluated constant, that constant, else None."""
    vals = set()
    for rb in body.return_blocks():
        for path in body.acyclic_paths(0, rb, limit=2000):
            r = mir.PathSummary(body, path).ret()
            v = mir.o_const_value(r)
            if v is None:
                return None
            vals.add(v)
    if len(vals) == 1:
        return vals.pop()
    return None


def effectful_calls(body, ignore_names=()):
    """Calls in normal blocks (not in cleanup)."""
    return [c for c in body.calls(normal_only=True) if c.callee.get("name") not in ignore_names]


def path_table(body, atom_of, limit=5000):
    """Enumerate normal paths; for each return (decisions: {atom: bool}, ret origin, PathSummary).
    atom_of(origin) -> hashable atom name or None (decision ignored)."""
    rows = []
    for rb in body.return_blocks():
        for path in body.acyclic_paths(0, rb, limit=limit):
            ps = mir.PathSummary(body, path)
            dec = {}
            other = []
            for bb, o, vals in ps.decisions():
                a = atom_of(o)
                if a is None:
                    other.append((bb, o, vals))
                    continue
                dec[a] = vals
            rows.append((dec, ps.ret(), ps, other))
    return rows


# ---- argument agreement (swapped same-typed arguments between workspace functions) -------------------

def named_source(body, op, depth=0):
    """The user-visible variable name an argument operand was read from, following compiler
    temporaries through moves, copies, borrows and `.clone()`-like identity calls."""
    while depth < 12:
        depth += 1
        pl = op.get("c") or op.get("m") if isinstance(op, dict) else None
        if pl is None:
            return None
        l = pl["l"]
        # field projections of a named aggregate are not the variable itself
        projs = [p for p in pl.get("p", ()) if p != "*"]
        nm = body.local_name(l)
        if nm and not projs:
            return nm
        if projs:
            return None
        ds = [d for d in body.defs().get(l, ()) if d[2] != "partial" and not body.blocks[d[0]]["cleanup"]]
        if len(ds) != 1:
            return None
        bb, j, kind, payload = ds[0]
        if kind == "assign":
            rv = payload
            if rv["k"] == "use":
                op = rv["op"]
                continue
            if rv["k"] in ("ref",):
                op = {"c": rv["place"]}
                continue
            if rv["k"] == "cast":
                op = rv["op"]
                continue
            return None
        if kind == "call":
            nmc = payload["callee"].get("name")
            if nmc in ("clone", "by_ref", "as_ref", "borrow", "to_owned", "into", "deref") and payload["args"]:
                op = payload["args"][0]
                continue
            return None
        return None
    return None


def arg_swaps(P, bodies):
    """Call sites (caller in `bodies`, callee any workspace function with named parameters) where two
    arguments are read from variables whose names are exactly each other's parameter names."""
    out = []
    n_sites = 0
    for b in bodies:
        for cs in b.calls(normal_only=True):
            c = cs.callee
            if "indirect" in c:
                continue
            tgt = c.get("resolved") or c.get("path")
            cb = P.bodies.get(tgt) or (P.bodies.get(P._norm_lookup(tgt)) if P._norm_lookup(tgt) else None)
            pnames = None
            if cb is None and c.get("trait") and c.get("name"):
                # an unresolved call of a workspace trait's method: its impls name the parameters; use a position's
                # name only where every impl agrees on it
                impls = [x for x in P.find(trait=c["trait"], method=c["name"]) if not x.is_closure and x.argc == len(cs.args)]
                if impls:
                    cb = impls[0]
                    pnames = []
                    for i in range(cb.argc):
                        ns = {x.local_name(i + 1) for x in impls}
                        pnames.append(ns.pop() if len(ns) == 1 else None)
            if cb is None or cb.argc != len(cs.args) or cb.argc < 2:
                continue
            if pnames is None:
                pnames = [cb.local_name(i + 1) for i in range(cb.argc)]
            anames = [named_source(b, a) for a in cs.args]
            if sum(1 for a in anames if a) < 2:
                continue
            n_sites += 1
            for i in range(len(anames)):
                for j in range(i + 1, len(anames)):
                    if not anames[i] or not anames[j] or not pnames[i] or not pnames[j]:
                        continue
                    if pnames[i] == pnames[j] or anames[i] == anames[j]:
                        continue
                    if anames[i] == pnames[j] and anames[j] == pnames[i]:
                        # same types only: otherwise it would not compile
                        if cb.local_ty(i + 1) == cb.local_ty(j + 1):
                            out.append((cs, i, j, anames[i], anames[j], cb.key))
    return out, n_sites


def arg_agreement_rule(chk, P, pid, crates_files, floor):
    """Register one obligation per offending site, or one discharged obligation for the scan."""
    bodies = [b for b in P.bodies.values() if any(b.crate == c and (f is None or b.file.endswith(f)) for c, f in crates_files)]
    swaps, n = arg_swaps(P, bodies)
    chk.floor("call sites with >=2 named arguments to named workspace parameters (argument-agreement scan)", n, floor)
    if not swaps:
        chk.ok("%s.args:scan" % pid, "no call passes two same-typed variables in each other's like-named parameter "
               "positions (argument agreement over %d call sites)" % n, sites=["%d sites scanned" % n])
    for cs, i, j, ai, aj, callee in swaps:
        chk.fail("%s.args:%s->%s#%s/%s" % (pid, cs.body.key, callee, ai, aj),
                 "arguments agree with the like-named parameters of the workspace function they are passed to",
                 "call of %s at %s passes variable `%s` for parameter `%s` and `%s` for parameter `%s`: the two "
                 "same-typed arguments are swapped" % (callee, cs.loc, ai, aj, aj, ai), loc=cs.loc)


def await_source(body, o, depth=0):
    """If an origin is the output of `<expr>.await`, the origin of <expr> (usually the call creating the
    future); else None.  Follows Ready payload -> poll(Pin::new_unchecked(&mut awaitee)) -> into_future(expr)."""
    while depth < 40:
        depth += 1
        if o[0] in ("field", "downcast", "index", "cast"):
            o = o[1]
            continue
        if o[0] == "phi":
            for x in o[1]:
                r = await_source(body, x, depth)
                if r is not None:
                    return r
            return None
        if o[0] == "call":
            nm = o[1].callee.get("name")
            if nm == "poll" and o[1].callee.get("trait") == "core::future::future::Future":
                o = body.origin(o[1].args[0], through_calls=("new_unchecked", "as_mut", "deref_mut", "get_unchecked_mut", "map_unchecked_mut"))
                continue
            if nm == "into_future":
                return body.origin(o[1].args[0])
            return None
        return None
    return None


def guarded_true(body, bb, pred):
    """Is block `bb` reached only through the *true* edge of a bool-returning call matching pred(CallSite)?
    Returns the guarding CallSite or None.  `!x`, `x == true`, `x != false` forms are normalised."""
    for gbb, vals, n in body.guards_of(bb):
        so, pos = mir.norm_bool(body.switch_origin(gbb))
        if so[0] == "call" and pred(so[1]):
            taken = list(vals) != ["0"] and "0" not in list(vals)
            if list(vals) == ["0"]:
                edge_true = False
            elif "0" in list(vals):
                continue
            else:
                edge_true = True
            if edge_true == pos:
                return so[1]
    return None


# ---- error discipline --------------------------------------------------------------------------------------

PASS_THROUGH = ("ok", "err", "map", "map_err", "and_then", "or_else", "ok_or", "ok_or_else", "into", "from", "as_ref", "as_mut", "as_deref", "as_deref_mut", "inspect", "inspect_err",
                "copied", "cloned", "transpose", "flatten", "filter", "unwrap_or_default")


def result_checked(body, cs, depth=0):
    """Is the Result/Option a call returns inspected?  True when its value (possibly through ok()/map_err()/...
    adaptors) reaches a `?` (Try::branch), a discriminant test, a bool switch, is returned, or is unwrapped.
    False when it is dropped / bound to `_`."""
    if depth > 8:
        return True
    dest = cs.dest
    if dest is None:
        return True
    if "p" in dest:
        return True
    d = dest["l"]
    if d == 0:
        return True
    al = body.value_aliases(d)
    if 0 in al:
        return True
    for a in al:
        for (bb, j, kind, obj) in body.uses(a):
            if kind == "switch":
                return True
            if kind == "stmt":
                rv = obj["rv"]
                if rv["k"] == "discr":
                    return True
                if rv["k"] in ("agg", "cast", "binop", "unop"):
                    return True  # stored into something else: not ignored
                if rv["k"] == "ref":
                    # borrowed for a method call: look at who uses the borrow
                    tl = obj["place"]["l"] if "p" not in obj["place"] else None
                    if tl is not None:
                        for (b2, j2, k2, o2) in body.uses(tl):
                            if k2 == "call":
                                c2 = mir.CallSite(body, b2, o2)
                                nm = c2.callee.get("name")
                                if nm in ("is_ok", "is_err", "is_some", "is_none", "unwrap", "expect"):
                                    return True
                                if nm in PASS_THROUGH and result_checked(body, c2, depth + 1):
                                    return True
                if rv["k"] == "use" and "p" in obj["place"]:
                    return True  # stored into a field
            if kind == "call":
                c2 = mir.CallSite(body, bb, obj)
                nm = c2.callee.get("name")
                if nm in ("branch", "unwrap", "expect", "unwrap_or", "unwrap_or_else", "is_ok", "is_err", "is_some", "is_none",
                          "expect_err", "unwrap_err"):
                    return True
                if nm in PASS_THROUGH:
                    if result_checked(body, c2, depth + 1):
                        return True
                    continue
                if nm in ("drop",):
                    continue
                return True  # passed to some other function: not silently ignored
    return False


def place_enum(P, body, place):
    """The ADT description of the enum a place has (following `*` and field projections through the ADT table), or None."""
    ty = body.local_ty(place["l"])
    for pr in place.get("p", ()):
        ty = mir._strip_lifetimes(ty).strip()
        while ty.startswith("&"):
            ty = ty[1:].replace("mut ", "", 1).strip()
        if pr == "*":
            continue
        if isinstance(pr, dict) and "f" in pr:
            a = P.adts.get(ty.split("<")[0])
            if a is None:
                return None
            fl = [f for v in a["variants"] for f in v["fields"] if f["name"] == pr.get("n")]
            if not fl:
                return None
            ty = fl[0]["ty"]
        else:
            return None
    ty = mir._strip_lifetimes(ty).strip()
    while ty.startswith("&"):
        ty = ty[1:].replace("mut ", "", 1).strip()
    a = P.adts.get(ty.split("<")[0])
    return a if a and a.get("kind") == "enum" else None


def variant_arm_agreement_rule(chk, P, key, doc, select, flavours, floor):
    """Arm/name agreement for a family of same-named variants (e.g. Proto / Json): in every `match` over an enum whose variant names are
    the given flavours, the arm for variant V only mentions V - callees, generic arguments and constructed variants named after another
    flavour in that arm mean the arms are crossed."""
    rx = re.compile(r"\b(%s)\b" % "|".join(map(re.escape, flavours)))

    def f():
        n, ev = 0, []
        for b in P.bodies.values():
            if not select(b) or b.kind.startswith(("Const", "Static")):
                continue
            discr_places = {}
            for bb, j, st in b.statements(normal_only=True):
                if st["k"] == "assign" and st["rv"]["k"] == "discr" and "p" not in st["place"]:
                    discr_places[st["place"]["l"]] = st["rv"]["place"]
            for i, t in b.switches():
                l = mir.Body._op_local(t["discr"])
                pl = discr_places.get(l)
                if pl is None:
                    continue
                a = place_enum(P, b, pl)
                if a is None or not set(v["name"] for v in a["variants"]) <= set(flavours) or len(a["variants"]) < 2:
                    continue
                by_discr = {str(v.get("discr", k)): v["name"] for k, v in enumerate(a["variants"])}
                tgts = [(str(v), nb) for v, nb in t["targets"]]
                known = {v for v, nb in tgts}
                rest = [nm for d, nm in by_discr.items() if d not in known]
                if t.get("otherwise") is not None and len(rest) == 1:
                    tgts.append((next(d for d, nm in by_discr.items() if nm == rest[0]), t["otherwise"]))
                for v, nb in tgts:
                    want = by_discr.get(v)
                    if want is None:
                        continue
                    region = [x for x in range(len(b.blocks)) if b.edge_dominates(i, nb, x)]
                    n += 1
                    for x in region:
                        term = b.blocks[x]["term"]
                        texts = []
                        if term["k"] == "call":
                            c = mir.CallSite(b, x, term)
                            texts.append((" ".join([c.callee.get("full") or "", c.callee.get("path") or ""] + list(c.callee.get("generics") or [])), c.loc))
                        for st in b.blocks[x]["stmts"]:
                            rv = st.get("rv") if st.get("k") == "assign" else None
                            if rv and rv["k"] == "agg" and rv.get("variant") in flavours:
                                texts.append((rv["variant"], "%s:%s" % (b.file, st.get("line"))))
                        # string constants used in the arm (content types, paths ...): judged by the flavour's lower-case stem
                        for st in b.blocks[x]["stmts"]:
                            rv = st.get("rv") if st.get("k") == "assign" else None
                            if rv and rv["k"] == "use":
                                v = mir.o_const_value(b.origin(rv["op"]))
                                if isinstance(v, str) and v:
                                    low = v.lower()
                                    mine = want.lower() in low
                                    others = [fl for fl in flavours if fl != want and fl.lower() in low]
                                    if others and not mine:
                                        return False, ("%s: the `%s` arm of the match on %s yields the constant %r, which names %s" %
                                                       (b.key, want, a["path"].rsplit("::", 1)[-1], v, others[0])), [], "%s:%s" % (b.file, st.get("line"))
                        for text, loc in texts:
                            other = {m for m in rx.findall(text)} - {want}
                            if other:
                                return False, ("%s: the `%s` arm of the match on %s at %s uses %s (%s): the arms are crossed, so data is produced in one "
                                               "form and labelled / sent as the other" % (b.key, want, a["path"].rsplit("::", 1)[-1], loc, sorted(other)[0], text[:90])), [], loc
                    ev.append("%s: %s arm" % (b.key.rsplit("::", 2)[-2] + "::" + b.key.rsplit("::", 1)[-1], want))
        if n < floor:
            raise mir.AnchorMissing("match arms over %s-flavoured enums (found %d, expected >= %d)" % ("/".join(flavours), n, floor))
        return True, "", ["%d arms checked" % n] + ev[:12]
    chk.ob(key, doc, f)


def name_flavour_rule(chk, P, key, doc, select, families, module_stems, floor):
    """Constructors named after a flavour build that flavour: a function whose name carries exactly one member of a family (`http_json`:
    http of {http, grpc}, json of {proto, json}) neither constructs a variant nor calls a sibling constructor named after another member of
    that family.  `module_stems` maps a module path fragment to the stem string constants of that module must carry when they carry any
    member of the stem family (signal-specific paths)."""
    def f():
        n, ev = 0, []
        all_stems = set(module_stems.values())
        for b in P.bodies.values():
            if not select(b) or b.is_closure or b.kind.startswith(("Const", "Static")):
                continue
            toks = set(b.key.rsplit("::", 1)[-1].lower().split("_"))
            for fam in families:
                mine = [fl for fl in fam if fl in toks]
                if len(mine) != 1:
                    continue
                own = mine[0]
                others = [fl for fl in fam if fl != own]
                n += 1
                for x in [b] + P.closures_of(b):
                    for bb, j, st in x.statements(normal_only=True):
                        rv = st.get("rv") if st["k"] == "assign" else None
                        if rv and rv["k"] == "agg" and (rv.get("variant") or "").lower() in others:
                            return False, ("%s constructs %s::%s at %s:%s: a constructor named `%s` must build the %s flavour" %
                                           (b.key, (rv.get("adt") or "").rsplit("::", 1)[-1], rv["variant"], x.file, st.get("line"), own, own)), [], "%s:%s" % (x.file, st.get("line"))
                    for c in x.calls(normal_only=True):
                        ct = set((c.callee.get("name") or "").lower().split("_"))
                        if (c.callee.get("path") or "").startswith(b.crate + "::") and (ct & set(others)) and own not in ct:
                            return False, ("%s calls %s at %s: a constructor named `%s` must not go through the `%s` one" %
                                           (b.key, c.callee.get("path"), c.loc, own, sorted(ct & set(others))[0])), [], c.loc
                ev.append("%s: %s" % (b.key.rsplit("::", 2)[-2] + "::" + b.key.rsplit("::", 1)[-1], own))
            for frag, stem in module_stems.items():
                if frag not in b.key:
                    continue
                for x in [b] + P.closures_of(b):
                    for bb, j, st in x.statements(normal_only=True):
                        rv = st.get("rv") if st["k"] == "assign" else None
                        ops = []
                        if rv and rv["k"] == "use":
                            ops = [rv["op"]]
                        elif rv and rv["k"] == "agg":
                            ops = rv.get("ops") or []
                        for op in ops:
                            v = mir.o_const_value(x.origin(op))
                            if isinstance(v, str) and len(v) > 8:
                                low = v.lower()
                                hit = [sx for sx in all_stems if sx in low]
                                if hit:
                                    n += 1
                                    if stem not in low:
                                        return False, ("%s uses the constant %r: it names the %s signal inside the %s module" %
                                                       (b.key, v, hit[0], frag.strip(":"))), [], "%s:%s" % (x.file, st.get("line"))
                                    ev.append("%s: %r" % (b.key.rsplit("::", 1)[-1], v[:60]))
        if n < floor:
            raise mir.AnchorMissing("flavour-named constructors / signal constants (found %d, expected >= %d)" % (n, floor))
        return True, "", ["%d sites" % n] + ev[:16]
    chk.ob(key, doc, f)


def wrapper_family_rule(chk, P, prefix, trait, floor, allow=None, check_return=True, synonyms=None, forward=True):
    """Sibling agreement for the wrappers and bridges of one trait (&T, Box<T>, Arc<T>, Option<T>, AssertInternal<T>, dyn Erased..):
    (1) every one of them defines every method any of them defines - a wrapper that leaves one to the trait's default silently replaces the
    wrapped value's own implementation of it by the default (`allow` lists (self type prefix, method) pairs with a reason);
    (2) each such method forwards to the same-named inner method exactly once."""
    allow = allow or {}
    ws = [i for i in P.impls if i.get("trait") == trait and is_wrapper_self(i.get("self_ty") or "")]

    def complete():
        if len(ws) < floor:
            raise mir.AnchorMissing("wrapper impls of %s (found %d, expected >= %d)" % (trait, len(ws), floor))
        union = set()
        for i in P.impls:
            # every impl of the trait counts: a provided method some implementor overrides is one a wrapper must pass on
            if i.get("trait") == trait:
                union |= {it["name"] for it in i.get("items", ()) if it.get("kind") == "Fn"}
        ev = []
        for i in ws:
            have = {it["name"] for it in i.get("items", ()) if it.get("kind") == "Fn"}
            for m in sorted(union - have):
                row = [k for k in allow if (i.get("self_ty") or "").startswith(k[0]) and k[1] == m]
                if row:
                    ev.append("%s leaves %s to the default: %s" % (i["self_ty"], m, allow[row[0]]))
                    continue
                return False, ("`impl %s for %s` does not define `%s`, which its sibling wrappers forward: through this wrapper the wrapped value's own "
                               "`%s` is replaced by the trait's default" % (trait.rsplit("::", 1)[-1], i["self_ty"], m, m)), [], i.get("span")
        return True, "", ["%d wrappers x %d methods" % (len(ws), len(union))] + ev
    chk.ob("%s.family:%s:complete" % (prefix, trait.rsplit("::", 1)[-1]), "every wrapper of the trait defines every method its siblings forward", complete)
    for b in (P.find(trait=trait) if forward else ()):
        if b.is_closure or not is_wrapper_self(b.self_ty or "") or (b.self_ty or "").startswith("core::option::Option"):
            continue
        cr = check_return and not (b.self_ty or "").startswith("(dyn")

        def fw(b=b, cr=cr):
            r = forward_check(b, check_return=cr)
            if not r[0]:
                for alt in (synonyms or {}).get(b.method, ()):
                    r2 = forward_check(b, name=alt, check_return=False)
                    if r2[0]:
                        return r2
            return r
        chk.ob("%s.family:%s" % (prefix, b.key), "a wrapper method forwards to the same-named inner method exactly once", fw, loc=b.span)


def pull_overrides_rule(chk, P, key):
    """A typed lookup is the untyped lookup followed by a cast - on every collection that is not a pure forwarder.  An override of
    Props::pull that asks its *parts* for typed values makes a failed cast look like a missing key: the lookup goes on to a later,
    shadowed value, and the generic path (which sees the override) disagrees with the type-erased one (which uses get + cast)."""
    PROPS = "emit_core::props::Props"

    def f():
        ev = []
        for b in P.find(trait=PROPS, method="pull"):
            if b.is_closure:
                continue
            try:
                fwd = forward_check(b)[0]
            except Exception:
                fwd = False
            total = [c for x in [b] + P.closures_of(b) for c in x.calls(normal_only=True) if c.callee.get("name") == "pull"]
            if (is_wrapper_self(b.self_ty or "") or fwd) and len(total) == 1:
                ev.append("%s: forwarder" % b.self_ty)
                continue
            inner = [c for x in [b] + P.closures_of(b) for c in x.calls(normal_only=True) if c.callee.get("trait") == PROPS and c.callee.get("name") == "pull"]
            if inner:
                return False, ("%s answers a typed lookup by asking its parts for typed values (%d pull calls): when the first collection has the key "
                               "with a value of another type the lookup falls through to a later, shadowed value instead of returning None, and the "
                               "generic and type-erased paths disagree" % (b.key, len(inner))), [], inner[0].loc
            ev.append("%s: get then cast" % b.self_ty)
        return True, "", ev or ["no non-forwarding override of Props::pull"]
    chk.ob(key, "no collection answers a typed lookup from its parts' typed lookups", f)


def linear_types_rule(chk, P, key, doc, types):
    """The listed types stand for exactly one obligation each (a span to complete once, a frame to close once, a channel half whose drop
    closes the channel, a slot initialised once): none of them is Clone or Copy - a copy would discharge the obligation twice (two
    completions, the channel closed while its twin still sends) - `types` maps a type path prefix to the reason."""
    def f():
        ev = []
        seen = {t: False for t in types}
        for a in P.adts.values():
            for t in types:
                if a["path"] == t:
                    seen[t] = True
        missing = [t for t, ok in seen.items() if not ok]
        if missing:
            raise mir.AnchorMissing("the type %s" % missing[0])
        for i in P.impls:
            if i.get("trait") not in ("core::clone::Clone", "core::marker::Copy"):
                continue
            st = mir._strip_lifetimes(i.get("self_ty") or "").split("<")[0]
            if st in types:
                return False, ("`impl %s for %s` at %s: %s" % (i["trait"].rsplit("::", 1)[-1], i["self_ty"], i.get("span"), types[st])), [], i.get("span")
        return True, "", sorted(types)
    chk.ob(key, doc, f)


def config_wiring_rule(chk, P, key, doc, body_keys, floor):
    """Configuration reaches its consumer unchanged: inside the given builder methods, wherever a field of `self` is handed to a
    like-named parameter of a workspace function, or stored in a like-named field of a workspace struct, it is exactly `self.<name>`
    (possibly cloned) - not another field, not a transformed value, not a constant."""
    def f():
        n, ev = 0, []
        for bk in body_keys:
            if not P.has_body(bk):
                raise mir.AnchorMissing(bk)
            b = P.body(bk)
            sty = mir._strip_lifetimes(b.local_ty(1)).lstrip("&").replace("mut ", "").split("<")[0]
            try:
                adt = P.adt(sty)
            except mir.AnchorMissing:
                raise mir.AnchorMissing("the type of `self` in %s (%s)" % (bk, sty))
            names = {fl["name"] for v in adt["variants"] for fl in v["fields"]}

            def check(target, op, what, loc):
                o = b.origin(op, through_calls=("clone", "into", "to_owned", "as_ref", "borrow", "deref", "to_string", "as_str", "copied", "cloned"))
                r, path = mir.o_field_path(o)
                if r[0] == "param" and r[1] == 1 and path[:1] == [target] and len(path) == 1:
                    return None
                return "%s hands %s to %s `%s` at %s: the configured `%s` does not reach it unchanged" % (bk, mir.o_str(o)[:100], what, target, loc, target)
            for c in b.calls(normal_only=True):
                tgt = c.callee.get("resolved") or c.callee.get("path")
                cb = P.bodies.get(tgt)
                if cb is None or cb.is_closure or cb.argc != len(c.args):
                    continue
                for i, a in enumerate(c.args):
                    pn = cb.local_name(i + 1)
                    if pn in names:
                        n += 1
                        bad = check(pn, a, "parameter", c.loc)
                        if bad:
                            return False, bad, [], c.loc
                        ev.append("%s: self.%s -> %s(%s)" % (c.loc, pn, cb.key.rsplit("::", 2)[-2] + "::" + cb.key.rsplit("::", 1)[-1], pn))
            for bb, j, st in b.statements(normal_only=True):
                rv = st.get("rv") if st["k"] == "assign" else None
                if not rv or rv["k"] != "agg" or rv.get("ak") != "adt" or not (rv.get("adt") or "").startswith(b.crate + "::") or (rv.get("adt") or "").split("<")[0] == sty:
                    continue
                for fn, op in zip(rv.get("fields") or [], rv["ops"]):
                    if fn in names:
                        n += 1
                        bad = check(fn, op, "field", "%s:%s" % (b.file, st.get("line")))
                        if bad:
                            return False, bad, [], "%s:%s" % (b.file, st.get("line"))
                        ev.append("%s:%s: self.%s -> %s.%s" % (b.file, st.get("line"), fn, rv.get("adt").rsplit("::", 1)[-1], fn))
        if n < floor:
            raise mir.AnchorMissing("configuration hand-off sites (found %d, expected >= %d)" % (n, floor))
        return True, "", ev
    chk.ob(key, doc, f)


def results_inspected_rule(chk, P, key, doc, select, allow, floor):
    """Error discipline over a region: every call that returns a Result has its outcome inspected (?, match, is_ok/is_err, returned,
    stored, passed on); `let _ = ...` / a dropped temporary is reported.  `allow` maps (regex on the enclosing function, callee name)
    to the reason the outcome may be ignored there."""
    def f():
        n, used, bad = 0, set(), []
        for b in P.bodies.values():
            if not select(b) or b.kind.startswith(("Const", "Static", "AssocConst", "InlineConst")):
                continue
            for c in b.calls(normal_only=True):
                if c.dest is None or "p" in c.dest:
                    continue
                if not re.match(r"(core::result::)?Result<", b.local_ty(c.dest["l"])):
                    continue
                n += 1
                if result_checked(b, c):
                    continue
                row = [k for k in allow if re.search(k[0], b.key) and k[1] == c.callee.get("name")]
                if row:
                    used.add(row[0])
                    continue
                bad.append((b, c))
        if n < floor and not getattr(chk, "_overlay", None):   # the floor was counted on the default build; a reduced build has fewer sites
            return False, "only %d Result-returning call sites found (expected >= %d)" % (n, floor), [], None
        if bad:
            b, c = bad[0]
            return False, ("%s discards the Result of %s at %s: a failure of that step is neither returned, counted nor acted on, and what "
                           "follows runs as if it had succeeded" % (b.key, c.callee.get("name"), c.loc)), ["%s %s" % (x[0].key, x[1].loc) for x in bad], c.loc
        stale = [k for k in allow if k not in used]
        return True, "", ["%d Result-returning call sites inspected" % n] + ["ignored by design: %s / %s - %s" % (k[0], k[1], allow[k]) for k in sorted(used)] + \
            (["allow rows with no site on this tree: %s" % stale] if stale else [])
    chk.ob(key, doc, f)


# ---- FromValue siblings: downcast first, then parse the value's text form ---------------------------------------

def _rp1(P, body, o):
    """Does the origin derive (through identity-like calls) from parameter 1 of the outermost function?"""
    return derives_from_root_param(P, body, o, 1, through=("to_str", "by_ref", "borrow", "as_ref", "deref", "get", "clone", "into", "to_cow_str", "to_borrowed_str"))


def fromvalue_rule(chk, P, prefix, types):
    """Every `impl FromValue for <well-known type>` is `downcast_ref::<Self>()` first and falls back to
    `Value::parse` (which renders *any* value - Display-captured, buffered, owned - to text and parses it)."""
    FROM = "emit_core::value::FromValue"
    for ty in types:
        def f(ty=ty):
            bs = [b for b in P.find(trait=FROM, method="from_value") if not b.is_closure and mir._strip_lifetimes(b.self_ty or "") == ty]
            if not bs:
                raise mir.AnchorMissing("impl FromValue for %s" % ty)
            b = bs[0]
            bodies = [b] + P.closures_of(b)
            dc = [c for x in bodies for c in x.calls(normal_only=True) if c.callee.get("name") == "downcast_ref"]
            # the text-form fallback: Value::parse, or the type's own Display-buffering text parser applied to the value
            pr = [c for x in bodies for c in x.calls(normal_only=True)
                  if ((c.callee.get("path") or "").startswith("emit_core::value::Value") and c.callee.get("name") == "parse")
                  or (c.callee.get("name") in ("try_from_hex", "try_from_str") and c.args and
                      (("param", 1) in roots(x.origin(c.args[0])) and not x.is_closure or _rp1(P, x, x.origin(c.args[0]))))]
            if not dc:
                return False, "%s::from_value does not try the typed value first (downcast_ref)" % ty, [], b.span
            if not pr:
                narrow = [c for x in bodies for c in x.calls(normal_only=True) if c.callee.get("name") in ("to_borrowed_str", "to_str", "cast")]
                return False, ("%s::from_value does not fall back to Value::parse (the value's text form, whatever captured or "
                               "buffered it)%s: a Display-captured, formatted or owned/buffered value would no longer be "
                               "recognised" % (ty, "; it only looks at %s" % narrow[0].callee.get("name") if narrow else "")), [], (narrow[0].loc if narrow else b.span)
            # nothing answers before the typed value has been tried: a shortcut in front of it (an exact-text match on a borrowed string,
            # say) decides for the values it recognises and so by-passes the lenient text parser for them
            top = [c for c in dc if c.body is b]
            if top and not b.must_pass([top[0].bb]):
                early = [c for c in b.calls(normal_only=True) if c.callee.get("name") in ("to_borrowed_str", "to_str", "to_cow_str", "cast") and not b.dominates(top[0].bb, c.bb)]
                return False, ("%s::from_value can return without trying the typed value and the text parser%s: values that path recognises are "
                               "decided by it alone (exact spelling instead of the parser's case/whitespace/abbreviation rules)"
                               % (ty, " (a shortcut through %s at %s)" % (early[0].callee.get("name"), early[0].loc) if early else "")), [], (early[0].loc if early else b.span)
            # parse applies to the value parameter itself
            for c in pr:
                o = c.body.origin(c.args[0])
                rr = roots(o)
                if not ((("param", 1) in rr and not c.body.is_closure) or _rp1(P, c.body, o)):
                    return False, "Value::parse is applied to %s, not the value being cast" % mir.o_str(o), [], c.loc
            return True, "", [dc[0].loc, pr[0].loc]
        chk.ob("%s.FromValue:%s" % (prefix, ty), "casting a property value to the typed form tries the typed value, then parses its text form", f)


def hex_id_fromvalue_rule(chk, P, prefix):
    """TraceId / SpanId cast from a value: typed value, else a *typed integer*, else the hex decoder.  Text must reach the
    hex decoder only: a decimal text parse in front of it would read an all-digit hex id as a decimal number.  The two
    sibling impls must agree step for step."""
    FROM = "emit_core::value::FromValue"
    seqs = {}

    def steps(ty):
        bs = [b for b in P.find(trait=FROM, method="from_value") if not b.is_closure and mir._strip_lifetimes(b.self_ty or "") == ty]
        if not bs:
            raise mir.AnchorMissing("impl FromValue for %s" % ty)
        b = bs[0]
        out = []
        for x in [b] + P.closures_of(b):
            for c in x.calls(normal_only=True):
                nm = c.callee.get("name")
                if nm in ("or_else", "and_then", "copied", "cloned", "ok", "by_ref", "map", "or"):
                    continue
                out.append((nm, c))
        return b, out

    for ty in ("emit::span::TraceId", "emit::span::SpanId"):
        def f(ty=ty):
            b, st = steps(ty)
            for nm, c in st:
                full = (c.callee.get("full") or "") + " " + " ".join(map(str, c.callee.get("generics") or []))
                if nm in ("parse", "from_str") and re.search(r"\bu(8|16|32|64|128|size)\b|\bi(8|16|32|64|128|size)\b", full):
                    return False, ("%s::from_value parses the value's *text* as a decimal integer (%s at %s) before the hex decoder: a "
                                   "16/32-digit hex id made only of 0-9 would be read as a decimal number and give a different id"
                                   % (ty, nm, c.loc)), [], c.loc
            names = [nm for nm, c in st]
            if "try_from_hex" not in names and "try_from_hex_slice" not in names:
                return False, "%s::from_value never reaches the hex decoder" % ty, [], b.span
            return True, "", [c.loc for nm, c in st]
        chk.ob("%s.FromValue.hex:%s" % (prefix, ty), "an id's text form is read by the hex decoder only (no decimal text parse in front of it)", f)

    def sib():
        def norm(nm, c):
            st = mir._strip_lifetimes(c.callee.get("self_ty") or "")
            return re.sub(r"u128|u64", "uN", re.sub(r"TraceId|SpanId", "Id", "%s %s" % (st, nm)))
        a = [norm(nm, c) for nm, c in steps("emit::span::TraceId")[1]]
        b_ = [norm(nm, c) for nm, c in steps("emit::span::SpanId")[1]]
        if a != b_:
            return False, "TraceId and SpanId are cast from values by different steps: %s vs %s" % (a, b_), [], None
        return True, "", a
    chk.ob("%s.FromValue.hex:siblings" % prefix, "TraceId and SpanId cast from values by the same steps (typed, typed integer, hex text)", sib)


# ---- builder discipline ------------------------------------------------------------------------------------------------

def _self_field_names(b, o, depth=0):
    """Set of first-level field names of `self` (param 1) an origin reads; None if it reads self whole."""
    out = set()
    whole = [False]

    def walk(x, d):
        if d > 25:
            return
        k = x[0]
        if k == "field":
            root, names = mir.o_field_path(x)
            if root is not None and mir.o_is_param(root, idx=1) and names:
                out.add(names[0])
                return
            walk(x[1], d + 1)
        elif k == "param":
            if x[1] == 1:
                whole[0] = True
        elif k == "call":
            for a in x[1].args:
                walk(x[1].body.origin(a), d + 1)
        elif k in ("downcast", "index", "cast", "discr", "repeat"):
            walk(x[1], d + 1)
        elif k == "agg":
            for y in x[2]:
                walk(y, d + 1)
        elif k == "phi":
            for y in x[1]:
                walk(y, d + 1)
        elif k == "binop":
            walk(x[2], d + 1)
            walk(x[3], d + 1)
        elif k == "unop":
            walk(x[2], d + 1)
    walk(o, depth)
    return out, whole[0]


def builder_rules(chk, P, prefix, select, floor):
    """Builder / setter methods (`fn with_x(self, x) -> Self'`, `fn x(mut self, x) -> Self`): the value given for one
    component lands in the like-named field and every other field of the result is the *same* field of `self` - no
    component is dropped, defaulted or cross-wired.  `select(body) -> bool` picks the methods."""
    n = 0
    for b in sorted(P.bodies.values(), key=lambda x: x.key):
        if b.is_closure or b.argc < 1 or not select(b):
            continue
        t0 = mir._strip_lifetimes(b.local_ty(0)).split("<")[0].lstrip("&mut ").strip()
        t1 = mir._strip_lifetimes(b.local_ty(1)).split("<")[0].lstrip("&mut ").strip()
        if not t0 or t0 != t1 or "::" not in t0:
            continue
        adt = P.adts.get(t0)
        if not adt or len(adt.get("variants", [])) != 1:
            continue
        fields = [f["name"] for f in adt["variants"][0]["fields"]]
        if len(fields) < 2:
            continue
        pnames = [b.local_name(i + 1) for i in range(b.argc)]
        meth = b.key.split("::")[-1]

        def f(b=b, fields=fields, pnames=pnames, meth=meth, t0=t0):
            r = b.origin(0)
            stem = re.sub(r"^(with_|map_|and_|set_)", "", meth)
            # (1) aggregate literal
            if r[0] == "agg" and (r[1].get("adt") or "").split("<")[0] == t0:
                fo = dict(zip(r[1].get("fields") or [], r[2]))
                changed = []
                for g, val in fo.items():
                    names, whole = _self_field_names(b, val)
                    from_param = any(k == "param" and v != 1 for k, v in roots(val)) or any(k == "const" for k, v in roots(val))
                    if names == {g} and not from_param and not whole:
                        continue   # kept
                    changed.append(g)
                    bad = names - {g}
                    if bad:
                        return False, ("%s builds the result's `%s` from self.%s: a component is cross-wired"
                                       % (b.key, g, sorted(bad)[0])), [], b.span
                    if not names and not from_param and not whole:
                        if val[0] == "agg" and not val[2] and (val[1].get("adt") or "").split("<")[0].endswith("PhantomData"):
                            continue   # a marker
                        return False, "%s sets `%s` to %s, dropping the configured value" % (b.key, g, mir.o_str(val)), [], b.span
                for i, pn in enumerate(pnames[1:], start=2):
                    if stem in fo and stem != pn:
                        # the method name says which component it sets (with_panic_lvl(lvl) stores into panic_lvl)
                        if len(pnames) == 2 and ("param", i) not in roots(fo[stem]):
                            return False, "%s does not store its argument in the `%s` field" % (b.key, stem), [], b.span
                        continue
                    if pn in fo and pn not in changed:
                        return False, "%s ignores its `%s` argument (the result keeps self.%s)" % (b.key, pn, pn), [], b.span
                    if pn in fo:
                        if ("param", i) not in roots(fo[pn]):
                            return False, "%s does not store its `%s` argument in the `%s` field" % (b.key, pn, pn), [], b.span
                if stem in fo and changed and stem not in changed:
                    return False, "%s changes %s but not `%s`" % (b.key, changed, stem), [], b.span
                return True, "", [b.span]
            # (2) delegation to the sibling builder of the same component
            if r[0] == "call" and mir.o_is_param(b.origin(r[1].args[0]) if r[1].args else ("x",), idx=1):
                cn = r[1].callee.get("name") or ""
                cstem = re.sub(r"^(with_|map_|and_|set_)", "", cn)
                if cstem != stem and stem in fields and cstem in fields:
                    return False, "%s delegates to %s: a different component is replaced" % (b.key, cn), [], r[1].loc
                return True, "", [r[1].loc]
            # (3) setter: partial assignments into self, then self returned
            if mir.o_is_param(r, idx=1) or r[0] in ("phi", "local"):
                sets = []
                for bb, j, st in b.statements(normal_only=True):
                    if st["k"] == "assign" and st["place"]["l"] == 1 and st["place"].get("p"):
                        pr = [p for p in st["place"]["p"] if isinstance(p, dict) and p.get("n")]
                        if pr:
                            sets.append((pr[0]["n"], st))
                for g, st in sets:
                    rv = st["rv"]
                    src = b.origin(rv["op"]) if rv["k"] == "use" else None
                    if src is None:
                        continue
                    for i, pn in enumerate(pnames[1:], start=2):
                        if ("param", i) in roots(src) and pn in fields and pn != g and not any(g2 == pn for g2, _ in sets):
                            return False, "%s stores its `%s` argument in the `%s` field" % (b.key, pn, g), [], b.span
                for i, pn in enumerate(pnames[1:], start=2):
                    if pn in fields and not any(g == pn for g, _ in sets) and pn == stem:
                        return False, "%s never stores its `%s` argument" % (b.key, pn), [], b.span
                # a configuration step changes the configuration: on every path it stores into a field of self, or hands self to a sibling step
                if mir.o_is_param(r, idx=1):
                    store_bbs = {bb for bb, j, st in b.statements(normal_only=True) if st["k"] == "assign" and st["place"].get("p") and
                                 (st["place"]["l"] == 1 or (st["place"]["p"][0] == "*" and ("param", 1) in roots(b.origin({"c": {"l": st["place"]["l"]}}))))}
                    # ... or mutates a part of self in place (`self.items.push(x)`, `resource.attributes.insert(..)` on a value stored afterwards)
                    store_bbs |= {c.bb for c in b.calls(normal_only=True) if c.args and (b.local_ty(c.args[0].get("m", c.args[0].get("c", {})).get("l")) or "").startswith("&mut")
                                  and ("param", 1) in roots(b.origin(c.args[0]))}
                    deleg = {c.bb for c in b.calls(normal_only=True) if c.args and any(mir.o_is_param(mir.o_root(b.origin(a)), idx=1) for a in c.args[:1])
                             and (c.callee.get("path") or "").split("<")[0].rsplit("::", 1)[0] == b.key.split("<")[0].rsplit("::", 1)[0]}
                    if not (store_bbs | deleg):
                        return False, ("%s returns self without ever storing anything into it: the option it is named after is silently not applied" % b.key), [], b.span
                    # and every argument goes somewhere: into a store, or into a call
                    for i, pn in enumerate(pnames[1:], start=2):
                        used = any(st["k"] == "assign" and st["rv"]["k"] in ("use", "agg", "cast", "ref") and
                                   any(("param", i) in roots(b.origin(o_)) for o_ in b.rvalue_operands(st["rv"]) if isinstance(o_, dict))
                                   for bb, j, st in b.statements(normal_only=True)) or \
                            any(("param", i) in roots(b.origin(a)) for c in b.calls(normal_only=True) for a in c.args)
                        if not used:
                            return False, "%s never uses its `%s` argument: the value given for it is dropped" % (b.key, pn or i), [], b.span
                return True, "", [b.span]
            return True, "", [b.span]
        n += 1
        chk.ob("%s.builder:%s" % (prefix, b.key), "a builder step stores its argument in the like-named field and keeps every other field of self", f, loc=b.span)
    chk.floor("builder / setter methods", n, floor)


def level_parser_table(chk, P, prefix):
    """The lenient level parser's per-byte decision table, read off the loop of emit::level::parse:
        end of input                                  -> Ok(level)
        letter, expected name exhausted               -> Err
        letter, differs from the next expected letter -> Err
        letter, equals it (case-insensitively)        -> next byte (both cursors advance)
        not a letter, printable ASCII                 -> Ok(level)   (`info13`, `INFO(4)`)
        not a letter, control or non-ASCII            -> Err"""
    def f():
        b = P.body("emit::level::parse")
        be = b.back_edges()
        if len(be) != 1:
            raise mir.AnchorMissing("the byte loop of emit::level::parse")
        src, h = be[0]
        rows = {}
        ends = set(b.return_blocks()) | {src}
        for e in ends:
            for path in b.acyclic_paths(h, e, limit=3000):
                ps = mir.PathSummary(b, path)
                atoms = {}
                gets = 0
                for sbb, o, v in ps.decisions():
                    true_edge = tuple(v) not in (("0",), (0,))
                    x = o[1] if o[0] == "discr" else o
                    if x[0] == "call":
                        nm = x[1].callee.get("name")
                        if nm == "get":
                            gets += 1
                            atoms["more" if gets == 1 else "expected_left"] = (tuple(v) in (("1",), (1,)))
                        elif nm in ("is_ascii_alphabetic", "is_ascii", "is_ascii_control"):
                            atoms[nm] = true_edge
                    elif x[0] == "binop" and x[1] in ("Ne", "Eq"):
                        atoms["mismatch"] = true_edge if x[1] == "Ne" else not true_edge
                if e == src:
                    out = "next"
                else:
                    r = ps.ret()
                    out = "ok" if (r[0] == "agg" and r[1].get("variant") == "Ok" and mir.o_is_param(r[2][0], idx=3)) else \
                          ("err" if (r[0] == "agg" and r[1].get("variant") == "Err") else "other:%s" % mir.o_str(r))
                rows[tuple(sorted(atoms.items()))] = out
        want = {
            (("more", False),): "ok",
            (("expected_left", False), ("is_ascii_alphabetic", True), ("more", True)): "err",
            (("expected_left", True), ("is_ascii_alphabetic", True), ("mismatch", True), ("more", True)): "err",
            (("expected_left", True), ("is_ascii_alphabetic", True), ("mismatch", False), ("more", True)): "next",
            (("is_ascii", True), ("is_ascii_alphabetic", False), ("is_ascii_control", False), ("more", True)): "ok",
            (("is_ascii", True), ("is_ascii_alphabetic", False), ("is_ascii_control", True), ("more", True)): "err",
            (("is_ascii", False), ("is_ascii_alphabetic", False), ("more", True)): "err",
        }
        if rows != want:
            diff = [(k, rows.get(k), want.get(k)) for k in set(rows) | set(want) if rows.get(k) != want.get(k)]
            return False, ("the level parser's decision table differs from `prefix of the level name, then end or a printable non-letter`: "
                           "(conditions, found, expected) = %s" % diff[:3]), [], b.span
        # the mismatch test is case-insensitive on the input byte and both cursors advance by one on the matching edge
        up = [c for c in b.calls(normal_only=True) if c.callee.get("name") == "to_ascii_uppercase"]
        if len(up) != 1:
            return False, "the comparison with the expected letter is not case-insensitive (to_ascii_uppercase on the input byte)", [], b.span
        return True, "", [b.span]
    chk.ob("%s.parser-table:emit::level::parse" % prefix, "the lenient level parser decides each byte by the documented table (prefix of the name, then end or a printable non-letter)", f)

    def g():
        b = P.impl_method("core::str::traits::FromStr", "emit::level::Level", "from_str")
        # first byte -> (expected names, level): each arm parses against the names of its own level
        LV = {"I": "Info", "D": "Debug", "E": "Error", "W": "Warn"}
        n = 0
        for x in [b] + P.closures_of(b):
            for c in x.calls(normal_only=True):
                if c.callee.get("path") != "emit::level::parse":
                    continue
                n += 1
                eo = x.origin(c.args[1])
                v = eo[1].get("v") if eo[0] == "const" and isinstance(eo[1], dict) else None
                bs = bytes(v["bytes"]).decode() if isinstance(v, dict) and v.get("bytes") else mir.o_const_value(eo)
                lo = x.origin(c.args[2])
                lv = lo[1].get("variant") if lo[0] == "agg" else None
                if not isinstance(bs, str) or not bs or bs != bs.upper():
                    return False, "parse is given the expected name %r (must be a non-empty upper-case literal)" % (bs,), [], c.loc
                if LV.get(bs[0]) != lv:
                    return False, "the name %s is parsed as Level::%s" % (bs, lv), [], c.loc
        if n != 6:
            return False, "expected the six accepted names (INFORMATION, DEBUG, DBG, ERROR, WARNING, WRN), found %d parse calls" % n, [], b.span
        return True, "", [b.span]
    chk.ob("%s.parser-table:Level::from_str" % prefix, "each accepted level name is parsed to the level whose initial it carries", g)


def deep_roots(P, body, o, depth=0, out=None):
    """Every leaf an origin is computed from, looking through *all* calls' arguments, aggregates, phis, projections and closure captures
    (a may-derive-from set, for rules of the form "X takes part in this decision").  Leaves: ("param", fn key, index) for a parameter of a
    non-closure body, ("cparam", closure key, index), ("const", value)."""
    if out is None:
        out = set()
    if depth > 24:
        return out
    k = o[0]
    if k == "param":
        out.add(("cparam" if body.is_closure else "param", body.key, o[1]))
    elif k == "capture":
        par = P.bodies.get(body.parent_key)
        if par is not None:
            deep_roots(P, par, P.capture_origin(body, o), depth + 1, out)
    elif k == "const":
        v = mir.o_const_value(o)
        if v is not None:
            out.add(("const", v if not isinstance(v, (list, dict)) else str(v)))
    elif k == "call":
        for a in o[1].args:
            deep_roots(P, o[1].body, o[1].body.origin(a), depth + 1, out)
    elif k == "phi":
        for x in o[1]:
            deep_roots(P, body, x, depth + 1, out)
    elif k == "agg":
        for x in o[2]:
            deep_roots(P, body, x, depth + 1, out)
    elif k == "binop":
        deep_roots(P, body, o[2], depth + 1, out)
        deep_roots(P, body, o[3], depth + 1, out)
    elif k == "unop":
        deep_roots(P, body, o[2], depth + 1, out)
    elif k in ("field", "downcast", "index", "cast", "ref", "deref", "copy", "discr"):
        deep_roots(P, body, o[1], depth + 1, out)
        if k == "index" and len(o) > 2 and isinstance(o[2], tuple):
            deep_roots(P, body, o[2], depth + 1, out)
    return out


def decision_region(P, body, origins, crate=None, limit=400):
    """The call sites that take part in a decision: every call in the origin trees of `origins`, the bodies of closures handed to those
    calls, and (for callees in `crate`) the callee's body and closures - each as (body, CallSite, path) where path is the chain of call
    sites in outer bodies through which a workspace callee was entered (to map its parameters back to arguments)."""
    out, seen = [], set()

    def add(x, c, via):
        if (x.key, c.bb) in seen or len(out) > limit:
            return
        seen.add((x.key, c.bb))
        out.append((x, c, via))
        for a in c.args:
            visit(x, x.origin(a), via)
        tgt = c.callee.get("path")
        if crate and tgt and P.has_body(tgt) and P.body(tgt).crate == crate and tgt != body.key:
            cb = P.body(tgt)
            for y in [cb] + P.closures_of(cb):
                for c2 in y.calls(normal_only=True):
                    add(y, c2, via + ((x, c),))

    def visit(x, o, via, d=0):
        if d > 16:
            return
        k = o[0]
        if k == "call":
            add(x, o[1], via)
        elif k == "agg":
            if o[1].get("ak") in ("closure", "coroutine") and o[1].get("def") in P.bodies:
                cb = P.bodies[o[1]["def"]]
                for y in [cb] + P.closures_of(cb):
                    for c2 in y.calls(normal_only=True):
                        add(y, c2, via)
            for z in o[2]:
                visit(x, z, via, d + 1)
        elif k == "phi":
            for z in o[1]:
                visit(x, z, via, d + 1)
        elif k == "binop":
            visit(x, o[2], via, d + 1)
            visit(x, o[3], via, d + 1)
        elif k == "unop":
            visit(x, o[2], via, d + 1)
        elif k in ("field", "downcast", "index", "cast", "ref", "deref", "copy", "discr"):
            visit(x, o[1], via, d + 1)
    for o in origins:
        visit(body, o, ())
    return out


def entry_params(P, root, x, o, via):
    """Which parameters of `root` (indices) does origin `o` in body `x` derive from, mapping a workspace callee's parameters back through
    the call chain `via` recorded by decision_region."""
    res = set()
    for leaf in deep_roots(P, x, o):
        if leaf[0] != "param":
            continue
        if leaf[1] == root.key:
            res.add(leaf[2])
            continue
        # a parameter of a callee: map through the call that entered it
        for (ox, oc) in reversed(via):
            if oc.callee.get("path") == leaf[1] and leaf[2] - 1 < len(oc.args):
                res |= entry_params(P, root, ox, ox.origin(oc.args[leaf[2] - 1]), via[:via.index((ox, oc))])
                break
    return res


def root_param(P, body, o, depth=0):
    """If an origin is a parameter of the outermost enclosing function - directly or captured through any number of nested
    closures / async blocks - its index, else None.  Lets rules identify `the visitor`, `the key`, `the value being cast` by
    position in the (trait-mandated) signature instead of by what an impl happens to call the parameter."""
    while depth < 8:
        depth += 1
        if o[0] in ("field", "downcast", "index", "cast"):
            o = o[1]
            continue
        if o[0] == "param":
            return None if body.is_closure else o[1]
        if o[0] == "capture":
            po = P.capture_origin(body, o)
            par = P.bodies.get(body.parent_key)
            if par is None:
                return None
            body, o = par, po
            continue
        return None
    return None


def capture_source(P, body, o):
    """The provenance, in the enclosing body, of a captured value (identity for non-captures)."""
    d = 0
    while o[0] == "capture" and d < 6:
        d += 1
        po = P.capture_origin(body, o)
        par = P.bodies.get(body.parent_key)
        if par is None:
            return po, body
        body, o = par, po
    return o, body


def derives_from_root_param(P, body, o, idx, through=("to_str", "by_ref", "borrow", "as_ref", "deref", "get", "to_event", "clone", "into")):
    """True if the origin is parameter `idx` of the outermost enclosing function, possibly captured through nested closures and
    passed through identity-like calls on the way (at any level)."""
    d = 0
    while d < 16:
        d += 1
        if o[0] in ("field", "downcast", "index", "cast"):
            o = o[1]
            continue
        if o[0] == "param":
            return (not body.is_closure) and o[1] == idx
        if o[0] == "capture":
            po = P.capture_origin(body, o)
            par = P.bodies.get(body.parent_key)
            if par is None:
                return False
            body, o = par, po
            continue
        if o[0] == "call" and o[1].callee.get("name") in through and o[1].args:
            o = body.origin(o[1].args[0])
            continue
        return False
    return False
