from . import mir


def ok_only_when_drained(P):
    raise mir.AnchorMissing("C12 rules not built yet")
