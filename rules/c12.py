"""C12 — OTLP export delivers every accepted event however batches are split.

Decided: the send loop removes exactly the request it just got acknowledged (same end of the queue, once
per iteration, only on the Ok edge), a failure returns the channel with that request still in it, Ok only
when no request is left; the request grouping in Channel::push; one receiver per configured signal; the
connection is handed back only after a successful request; HTTP 2xx / gRPC status 0 predicates; a transport
error is retryable."""
import re

from . import batcher, common, mir
from .mir import o_str

SEND = "emit_otlp::client::OtlpTransport::<R>::send::{closure#0}"


def _requests_field(b, o):
    r, names = mir.o_field_path(o)
    return names[-1:] == ["requests"]


def ok_only_when_drained(P):
    b = P.body(SEND)
    peek = [c for c in b.calls(normal_only=True) if c.callee.get("name") in ("last", "first", "get", "is_empty", "len", "last_mut", "first_mut")
            and _requests_field(b, b.origin(c.args[0], through_calls=("deref", "deref_mut", "as_slice")))]
    if len(peek) != 1:
        return False, "expected one peek at channel.requests in the send loop, found %d" % len(peek), [], b.span
    oks = [bb for bb, j, s in b.statements(normal_only=True) if s["k"] == "assign" and s["place"]["l"] == 0 and "p" not in s["place"]
           and s["rv"]["k"] == "agg" and s["rv"].get("variant") == "Ok"]
    if not oks:
        return False, "send never returns Ok", [], b.span
    for bb in oks:
        g = [(b.switch_origin(gbb), list(vals)) for gbb, vals, n in b.guards_of(bb)]
        if not any(so[0] == "discr" and so[1][0] == "call" and so[1][1].bb == peek[0].bb and "1" not in vals for so, vals in g):
            return False, ("send returns Ok on a path where a request may still be queued (the Ok is not on the `no request "
                           "left` edge of the peek)"), [], b.span
    return True, "", [peek[0].loc]


def _caps(o, acc=None, d=0):
    """All ("capture", name, index) leaves of an origin."""
    if acc is None:
        acc = []
    if d > 20:
        return acc
    if o[0] == "capture":
        acc.append(o)
    elif o[0] == "call":
        for a in o[1].args:
            _caps(o[1].body.origin(a), acc, d + 1)
    elif o[0] in ("field", "downcast", "index", "cast"):
        _caps(o[1], acc, d + 1)
    elif o[0] == "agg":
        for x in o[2]:
            _caps(x, acc, d + 1)
    elif o[0] == "phi":
        for x in o[1]:
            _caps(x, acc, d + 1)
    return acc


def send_loop_rules(chk, P, prefix):
    """The per-request send loop of the OTLP transport (shared with C14: no event is exported twice)."""
    def r1():
        b = P.body(SEND)
        sb = [c for c in b.calls(normal_only=True) if (c.callee.get("path") or "").endswith("::send_batch")]
        if len(sb) != 1:
            return False, "expected one send_batch call", [], b.span
        s = sb[0]
        if not b.in_cycle(s.bb):
            return False, "send_batch is not in a loop over the requests", [], s.loc
        # what is sent
        ro = b.origin(s.args[3])
        peek = None
        x = ro
        while x[0] in ("field", "downcast", "index"):
            x = x[1]
        if x[0] == "call":
            peek = x[1]
        if peek is None or not _requests_field(b, b.origin(peek.args[0], through_calls=("deref", "deref_mut", "as_slice"))):
            return False, "the request sent is %s, not one peeked from channel.requests" % o_str(ro), [], s.loc
        pk = peek.callee.get("name")
        rm = [c for c in b.calls(normal_only=True) if c.callee.get("name") in ("pop", "remove", "swap_remove", "drain", "truncate", "clear", "pop_front", "pop_back")
              and _requests_field(b, b.origin(c.args[0], through_calls=("deref", "deref_mut")))]
        if len(rm) != 1:
            return False, ("requests are removed from the channel at %d sites (%s); exactly one removal per acknowledged request "
                           "is needed — a second one discards an unsent request" % (len(rm), [c.loc for c in rm])), [], (rm[1].loc if len(rm) > 1 else b.span)
        r = rm[0]
        pair = {("last", "pop"), ("last_mut", "pop"), ("first", "remove"), ("first_mut", "remove")}
        if (pk, r.callee.get("name")) not in pair:
            return False, ("the loop sends `requests.%s()` but acknowledges with `requests.%s()`: the request removed is not the "
                           "one that was sent" % (pk, r.callee.get("name"))), [], r.loc
        if r.callee.get("name") == "remove" and mir.o_const_value(b.origin(r.args[1])) != 0:
            return False, "remove(%s) does not remove the first request" % o_str(b.origin(r.args[1])), [], r.loc
        # removal only on the Ok edge of the awaited send_batch
        ok_edge = False
        for gbb, vals, n in b.guards_of(r.bb):
            so = b.switch_origin(gbb)
            if so[0] == "discr":
                src = common.await_source(b, so[1])
                if src is not None and src[0] == "call" and src[1].bb == s.bb:
                    if "1" in list(vals):
                        return False, "the request is removed on the Err edge of send_batch: a failed request is dropped instead of retried", [], r.loc
                    if list(vals) == ["0"]:
                        ok_edge = True
        if not ok_edge:
            return False, "the request is removed without send_batch having succeeded", [], r.loc
        # once per iteration: no path from the loop header back to itself passes the removal twice — single site not in an inner cycle
        hdrs = [t for sfrom, t in b.back_edges() if r.bb in b.loop_body(t) and s.bb in b.loop_body(t)]
        if not hdrs:
            return False, "removal is outside the send loop", [], r.loc
        inner = [t for sfrom, t in b.back_edges() if r.bb in b.loop_body(t) and s.bb not in b.loop_body(t)]
        if inner:
            return False, "the removal sits in an inner loop", [], r.loc
        # Err edge returns the channel
        errs = [bb for bb, j, st in b.statements(normal_only=True) if st["k"] == "assign" and st["place"]["l"] == 0 and "p" not in st["place"]
                and st["rv"]["k"] == "agg" and st["rv"].get("variant") == "Err"]
        for bb in errs:
            eo = b.origin(0, _chooser=lambda defs, bb=bb: [d for d in defs if d[0] == bb][0] if [d for d in defs if d[0] == bb] else None)
            rr = common.roots(eo)
            carries = any(k == "local" for k, v in rr) or any(
                k == "capture" and common.root_param(P, b, ("capture", v, next((x[2] for x in _caps(eo) if x[1] == v), None))) == 2 for k, v in rr)
            if not carries:
                return False, "the error returned does not carry the channel (its remaining requests) back for retry", [], b.span
        return True, "", [peek.loc, s.loc, r.loc]
    chk.ob("%s.R1:send-loop" % prefix, "each acknowledged request is removed exactly once, from the end it was peeked at; a failed one stays", r1)
    chk.ob("%s.R1:ok-when-drained" % prefix, "Ok(()) only when no request is left", lambda: ok_only_when_drained(P))


OVERLAYS = ('K5',)


def request_hook_rule(chk, P, key):
    """The transport-specific request hook (`self.request`: for gRPC it sets the content type and puts the 5-byte length-prefixed frame around the
    payload; for HTTP it is the identity) is applied to the content on *every* path that reaches `send_request` - in every build: the rule is
    re-run on the build without the default features, where the `#[cfg(not(feature = "gzip"))]` arm prepares the content."""
    def f():
        ks = [k for k in P.bodies if re.match(r"^emit_otlp::client::http::HttpConnection::send(::\{closure#\d+\})*$", k)]
        for k in ks:
            b = P.bodies[k]
            sr = [c for c in b.calls(normal_only=True) if c.callee.get("name") == "send_request"]
            if not sr:
                continue
            hook = {c.bb for c in b.calls(normal_only=True) if c.callee.get("name") in ("call", "call_once", "call_mut") and c.args
                    and (mir.o_field_path(b.origin(c.args[0]))[1] or [None])[-1] == "request"}
            if not hook or not b.must_pass(hook, ends={sr[0].bb}):
                return False, ("a request can reach send_request without the transport's request hook having been applied to its content: a gRPC export "
                               "goes out without its content type and length-prefixed frame and is rejected by the collector, every time"), [], sr[0].loc
            content = b.origin(sr[0].args[-1])
            if not any(k_ == "callsite" and v in hook for k_, v in common.roots(content)):
                return False, "what send_request is given (%s) is not what the request hook returned" % o_str(content), [], sr[0].loc
            return True, "", [sr[0].loc]
        raise mir.AnchorMissing("send_request in HttpConnection::send")
    chk.ob(key, "the transport's request hook (gRPC framing) is applied to the content of every request, in every build", f)


def channel_metrics_wiring(chk, P, key):
    """`Otlp::metric_source` samples one channel per signal: the `<signal>_channel_metrics` field of the OtlpMetrics it builds is read off the
    client's `otlp_<signal>` sender - the like-named one (shared with C09: an overflow of the traces channel is counted where the traces
    metrics are read, not under logs)."""
    def f():
        b = P.body("emit_otlp::client::Otlp::metric_source")
        ev = []
        for bb, j, st in b.statements(normal_only=True):
            if st["k"] == "assign" and st["rv"]["k"] == "agg" and "OtlpMetrics" in (st["rv"].get("adt") or ""):
                for fld, op in zip(st["rv"].get("fields") or [], st["rv"]["ops"]):
                    if not fld.endswith("_channel_metrics"):
                        continue
                    sig = fld[:-len("_channel_metrics")]
                    seen = set()
                    o = b.origin(op)
                    d = 0
                    while o[0] == "call" and d < 10:
                        d += 1
                        for a in o[1].args[1:]:
                            ao = b.origin(a)
                            if ao[0] == "agg" and ao[1].get("ak") == "closure" and P.has_body(ao[1].get("def")):
                                cb = P.body(ao[1]["def"])
                                r = cb.origin(0, through_calls=("as_ref", "as_mut", "as_deref"))
                                for nm in mir.o_field_path(r)[1] or []:
                                    if isinstance(nm, str) and nm.startswith("otlp_"):
                                        seen.add(nm)
                        for nm in mir.o_field_path(o)[1] or []:
                            if isinstance(nm, str) and nm.startswith("otlp_"):
                                seen.add(nm)
                        if not o[1].args:
                            break
                        o = b.origin(o[1].args[0])
                    if seen != {"otlp_" + sig}:
                        return False, ("OtlpMetrics.%s is sampled from %s, not from the client's otlp_%s channel: that signal's queue length and truncation "
                                       "counter report another signal's channel" % (fld, sorted(seen) or "nothing recognisable", sig)), [], b.span
                    ev.append("%s <- otlp_%s" % (fld, sig))
        if len(ev) < 3:
            raise mir.AnchorMissing("per-signal channel metrics in Otlp::metric_source (found %d)" % len(ev))
        return True, "", ev
    chk.ob(key, "each signal's channel metrics are read off that signal's own sender", f)


def run(chk):
    P = mir.Program("K1")
    chk.use_program(P)
    chk.explain("Rules over built MIR of emit_otlp::client (async bodies before coroutine lowering): R1 in OtlpTransport::send "
                "each iteration peeks one request, awaits send_batch, and removes exactly one request with the operation "
                "matching the peeked end (last<->pop), only on the Ok edge; the Err edge returns the channel untouched; Ok "
                "only on the empty edge; R2 Channel::push adds the event to exactly one request and counts it once; R3 one "
                "exec per configured signal with its own transport; R4 the cached connection is taken before and handed "
                "back only after a successful request, inside the request timeout; R5 success is HTTP status in [200,300) / "
                "grpc-status 0 (value sets computed from the comparison constants); R6 a transport error maps to a "
                "retryable BatchError.")
    chk.trust("rustc nightly; Vec::pop/last, Option::take contracts")
    chk.assume("network behaviour, back-off timing and collector behaviour are not decided")
    chk.exhaustive = True

    send_loop_rules(chk, P, "C12")

    def err_keeps_channel():
        b = P.body(SEND)
        mr = [c for c in b.calls(normal_only=True) if c.callee.get("name") == "map_retryable"]
        if len(mr) != 1:
            return False, "expected the failure to be mapped with map_retryable", [], b.span
        clo = b.origin(mr[0].args[1])
        if clo[0] != "agg" or clo[1].get("ak") != "closure":
            return False, "map_retryable argument is not a closure", [], mr[0].loc
        # one of the captured values is the channel the function was given (its `channel` parameter, #2 of send; the async body sees it
        # as a capture or a local initialised from it) - by provenance, not by what the variable is called
        def is_channel(o):
            if common.derives_from_root_param(P, b, o, 2, through=()):
                return True
            if o[0] == "local":
                return "Channel" in b.local_ty(o[1])
            return False
        if not any(is_channel(x) for x in clo[2]):
            return False, "the retry closure does not capture the channel", [], mr[0].loc
        cb = P.body(clo[1]["def"])
        # r.map(|_| channel): Some stays Some, None stays None
        mp = [c for c in cb.calls(normal_only=True) if c.callee.get("name") == "map"]
        r = cb.origin(0)
        if not (mp and r[0] == "call" and r[1].bb == mp[0].bb and mir.o_is_param(cb.origin(mp[0].args[0]), idx=2)):
            return False, "the retryability of the failure is not preserved (closure returns %s)" % o_str(r), [], cb.span
        return True, "", [mr[0].loc]
    chk.ob("C12.R1:err-keeps-channel", "a retryable failure hands the channel back; a permanent one stays permanent", err_keeps_channel)

    def r2():
        i = [i for i in P.impls if i.get("trait") == "emit_batcher::Channel" and i["self_ty"] == "emit_otlp::client::Channel"]
        if not i:
            raise mir.AnchorMissing("impl Channel for otlp Channel")
        items = {it["name"]: it["key"] for it in i[0]["items"]}
        b = P.body(items["push"])
        ps = [c for c in b.calls(normal_only=True) if (c.callee.get("path") or "").endswith("EncodedScopeItems::push")]
        if not ps:
            return False, "push never adds the event to a request", [], b.span
        cnt = b.count_on_paths({c.bb for c in ps})
        if cnt != (1, 1):
            return False, "the event is added to a request %s times on some path (must be exactly once)" % (cnt,), [], ps[0].loc
        for c in ps:
            r, names = mir.o_field_path(b.origin(c.args[1]))
            if names[-1:] != ["event"]:
                return False, "what is pushed is %s, not item.event" % o_str(b.origin(c.args[1])), [], c.loc
        incs = []
        for bb, j, s in b.statements(normal_only=True):
            if s["k"] == "assign" and "p" in s["place"] and [p.get("n") for p in s["place"]["p"] if isinstance(p, dict) and "f" in p] == ["total_items"]:
                incs.append(bb)
        if len(incs) != 1 or b.count_on_paths(set(incs)) != (1, 1):
            return False, "total_items is not incremented exactly once per push", [], b.span
        # a new request is pushed onto self.requests only together with the event
        np_ = [c for c in b.calls(normal_only=True) if c.callee.get("name") == "push" and "Vec" in (c.callee.get("full") or "")
               and _requests_field(b, b.origin(c.args[0], through_calls=("deref_mut",)))]
        if len(np_) != 1:
            return False, "expected one place where a new request is started", [], b.span
        return True, "", [c.loc for c in ps]
    chk.ob("C12.R2:Channel::push", "every accepted event lands in exactly one request and is counted once", r2)

    def r3():
        # every signal configured on the builder gets its own receiver running with its own transport
        spawn = [b for b in P.by_crate["emit_otlp"] if b.calls_to(path_re=r"emit_batcher::Receiver::<.*>::exec$")]
        if not spawn:
            raise mir.AnchorMissing("the function that runs the receivers (Receiver::exec call sites)")
        sites = []
        for b in spawn:
            for c in b.calls_to(path_re=r"emit_batcher::Receiver::<.*>::exec$"):
                sites.append((b, c))
        if len(sites) != 3:
            return False, "expected one Receiver::exec per signal (logs, traces, metrics), found %d" % len(sites), [], spawn[0].span
        recvs = set()
        for b, c in sites:
            ro = b.origin(c.args[0])
            recvs.add(o_str(ro))
            clo = b.origin(c.args[2])
            if clo[0] != "agg" or clo[1].get("ak") != "closure":
                return False, "on_batch is not a closure", [], c.loc
            cb = P.body(clo[1]["def"])
            sends = [x for y in [cb] + P.closures_of(cb) for x in y.calls(normal_only=True) if (x.callee.get("path") or "").endswith("OtlpTransport::<R>::send")]
            if len(sends) != 1:
                return False, "the batch processor of a signal does not send through exactly one transport", [], cb.span
        if len(recvs) != 3:
            return False, "two signals share a receiver: %s" % sorted(recvs), [], sites[0][1].loc
        return True, "", [c.loc for b, c in sites]
    chk.ob("C12.R3:one-receiver-per-signal", "each of the three signals has its own receiver and transport (an outage of one does not stop the others)", r3)
    batcher.workers_run_to_completion(chk, P, "C12")

    def r4():
        key = None
        for k in P.bodies:
            if k.startswith("emit_otlp::client::http::HttpConnection::send::{closure#0}"):
                if P.bodies[k].calls_to(path_re=r"HttpConnection::unpoison$"):
                    key = k
        if key is None:
            raise mir.AnchorMissing("the request block of HttpConnection::send (unpoison call)")
        b = P.body(key)
        up = b.calls_to(path_re=r"HttpConnection::unpoison$")
        po = b.calls_to(path_re=r"HttpConnection::poison$")
        sr = [c for c in b.calls(normal_only=True) if c.callee.get("path") == "emit_otlp::client::http::send_request"]
        if len(up) != 1 or len(po) != 1 or len(sr) != 1:
            return False, "expected one poison, one send_request and one unpoison (found %d/%d/%d)" % (len(po), len(sr), len(up)), [], b.span
        u, p, s = up[0], po[0], sr[0]
        if not b.dominates(p.bb, s.bb):
            return False, "the cached connection is not taken before the request", [], p.loc
        ok = False
        for gbb, vals, n in b.guards_of(u.bb):
            so = b.switch_origin(gbb)
            if so[0] == "discr" and mir.o_is_call(so[1], name="branch"):
                src = common.await_source(b, b.origin(so[1][1].args[0]))
                if src is not None and src[0] == "call" and src[1].bb == s.bb and list(vals) == ["0"]:
                    ok = True
        if not ok:
            return False, ("the connection is handed back (unpoison) without the request on it having succeeded: after a "
                           "connection error the dead connection is cached and every retry fails on it instead of reconnecting"), [], u.loc
        if not common.has_root(b.origin(u.args[1]), "callsite", p.bb) and not b.origin(u.args[1])[0] in ("phi", "local"):
            return False, "what is handed back is %s" % o_str(b.origin(u.args[1])), [], u.loc
        # poison is Option::take under the lock
        pb = P.body("emit_otlp::client::http::HttpConnection::poison")
        tk = [c for c in pb.calls(normal_only=True) if c.callee.get("name") == "take"]
        lk = [c for c in pb.calls(normal_only=True) if c.callee.get("name") == "lock"]
        if len(tk) != 1 or len(lk) != 1:
            return False, "poison() must take() the cached sender under its lock", [], pb.span
        # the whole request runs inside tokio::time::timeout
        outer = P.body("emit_otlp::client::http::HttpConnection::send::{closure#0}")
        to = [c for c in outer.calls(normal_only=True) if c.callee.get("name") == "timeout" and "tokio::time" in (c.callee.get("path") or "")]
        if len(to) != 1 or not mir.o_is_param(outer.origin(to[0].args[0]), name="timeout") and not common.roots(outer.origin(to[0].args[0])):
            return False, "the request is not bounded by tokio::time::timeout", [], outer.span
        return True, "", [p.loc, s.loc, u.loc]
    chk.ob("C12.R4:connection-poisoning", "the cached connection is taken for the request and put back only after the request succeeded, inside the timeout", r4)

    def status_sets():
        root = "emit_otlp::client::OtlpTransportBuilder::build"
        http = grpc = None
        for k, b in P.bodies.items():
            if not k.startswith(root + "::"):
                continue
            names = {c.callee.get("name") for c in b.calls(normal_only=True)}
            if "http_status" in names and "stream_payload" not in names:
                http = b
            if "stream_payload" in names:
                grpc = b
        if http is None or grpc is None:
            raise mir.AnchorMissing("the HTTP / gRPC response closures in OtlpTransportBuilder::build")
        out = []
        cases = [(http, "HTTP", set(range(200, 300)), lambda so: True), (grpc, "gRPC", {0}, lambda so: "http_status" not in o_str(so))]
        if any(c.callee.get("name") == "http_status" for c in grpc.calls(normal_only=True)):
            # the gRPC handler also tests the HTTP status of the response (a proxy's error has no grpc-status): that test has its own value set
            cases.append((grpc, "HTTP (gRPC transport)", set(range(200, 300)), lambda so: "http_status" in o_str(so)))
        for b, what, want, mine in cases:
            oks = [bb for bb, j, s in b.statements(normal_only=True) if s["k"] == "assign" and s["place"]["l"] == 0 and "p" not in s["place"]
                   and s["rv"]["k"] == "agg" and s["rv"].get("variant") == "Ok"]
            if not oks:
                return False, "%s response handler never succeeds" % what, [], b.span
            accepted = set()
            universe = range(0, 1024) if what.startswith("HTTP") else range(0, 64)
            for bb in oks:
                cons = []
                for gbb, vals, n in b.guards_of(bb):
                    so = b.switch_origin(gbb)
                    if so[0] == "binop" and so[1] in ("Ge", "Gt", "Le", "Lt", "Eq", "Ne") and mine(so):
                        k = mir.o_const_value(so[3])
                        if isinstance(k, int):
                            cons.append((so[1], k, list(vals) != ["0"]))
                if not cons:
                    return False, "%s success is not conditional on the status" % what, [], b.span
                ops = {"Ge": lambda a, k: a >= k, "Gt": lambda a, k: a > k, "Le": lambda a, k: a <= k, "Lt": lambda a, k: a < k,
                       "Eq": lambda a, k: a == k, "Ne": lambda a, k: a != k}
                for v in universe:
                    if all(ops[o](v, k) == t for o, k, t in cons):
                        accepted.add(v)
            exp = {v for v in want if v in universe}
            if accepted != exp:
                extra = sorted(accepted - exp)[:5]
                missing = sorted(exp - accepted)[:5]
                return False, ("%s responses counted as success: extra %s, missing %s (success must be exactly %s)"
                               % (what, extra, missing, "200..=299" if what.startswith("HTTP") else "grpc-status 0")), [], b.span
            out.append("%s: %s" % (what, "200..=299" if what.startswith("HTTP") else "{0}"))
        return True, "", out
    chk.ob("C12.R5:status", "a request counts as acknowledged exactly for HTTP 2xx / grpc-status 0", status_sets)

    def r6():
        key = None
        for k, b in P.bodies.items():
            if k.startswith("emit_otlp::client::OtlpTransport::<R>::send_batch") and b.calls_to(path_re=r"HttpConnection::send$"):
                key = k
        if key is None:
            raise mir.AnchorMissing("send_batch body calling HttpConnection::send")
        b = P.body(key)
        hs = b.calls_to(path_re=r"HttpConnection::send$")[0]
        rt = b.calls_to(path_re=r"BatchError::<.*>::retry$")
        if len(rt) != 1:
            return False, "a transport failure must map to exactly one BatchError::retry", [], b.span
        ok = False
        for gbb, vals, n in b.guards_of(rt[0].bb):
            so = b.switch_origin(gbb)
            if so[0] == "discr":
                src = common.await_source(b, so[1])
                if src is not None and src[0] == "call" and src[1].bb == hs.bb and list(vals) == ["1"]:
                    ok = True
        if not ok:
            return False, "BatchError::retry is not on the Err edge of the awaited request", [], rt[0].loc
        # Ok(()) only on the Ok edge
        oks = [bb for bb, j, s in b.statements(normal_only=True) if s["k"] == "assign" and s["place"]["l"] == 0 and "p" not in s["place"]
               and s["rv"]["k"] == "agg" and s["rv"].get("variant") == "Ok"]
        for bb in oks:
            g = False
            for gbb, vals, n in b.guards_of(bb):
                so = b.switch_origin(gbb)
                if so[0] == "discr":
                    src = common.await_source(b, so[1])
                    if src is not None and src[0] == "call" and src[1].bb == hs.bb and list(vals) == ["0"]:
                        g = True
            if not g:
                return False, "send_batch reports success without the request having succeeded", [], b.span
        return True, "", [hs.loc, rt[0].loc]
    chk.ob("C12.R6:send_batch", "a failed request is retryable; success only on the request's Ok edge", r6)

    def flush_links():
        from . import c07
        return True, "see C07.R5 (flush reaches every signal)", ["C07.R5"]
    common.arg_agreement_rule(chk, P, "C12", [("emit_otlp", "src/client.rs"), ("emit_otlp", "src/client/http.rs")], 10)
    common.name_flavour_rule(chk, P, "C12.R9:named-constructors", "http/grpc and proto/json constructors build the transport, encoding and service path "
                             "their names say; each signal module names its own collector service",
                             lambda b: b.crate == "emit_otlp" and "/client" in b.file and "::tests::" not in b.key,
                             [("http", "grpc"), ("proto", "json")], {"::client::logs::": "logs", "::client::traces::": "trace", "::client::metrics::": "metrics"}, 12)
    common.variant_arm_agreement_rule(chk, P, "C12.R9:encoding-arms", "protobuf arms use the protobuf encoder, content type and label, JSON arms the JSON ones",
                                      lambda b: b.crate == "emit_otlp" and "generated" not in b.file and "::tests::" not in b.key, ("Proto", "Json"), 8)
    common.config_wiring_rule(chk, P, "C12.R9:transport-configuration", "the transport's configured headers and compression switch reach the HTTP connection "
                              "of either protocol version unchanged", ["emit_otlp::client::OtlpTransportBuilder::build"], 4)
    common.results_inspected_rule(
        chk, P, "C12.R8:results-inspected", "no transport, encoding or configuration failure in the OTLP client is silently dropped",
        lambda b: b.crate == "emit_otlp" and "generated" not in b.file and "::tests::" not in b.key and "/data" not in b.file,
        {(r"http::tls_handshake(::\{closure#\d+\})*$", "add"):
             "a native root certificate the TLS library cannot parse is skipped; the handshake then fails (and is reported) only if no usable root remains"},
        70)
    # a failed request is sent again only if the channel's retry loop hands the remainder back: the retry machinery of the channel is part of this property's mechanism
    batcher.bounded_retry(chk, P, "C12.batcher")
    batcher.retry_remainder(chk, P, "C12.batcher")
    batcher.batch_error_helpers(chk, P, "C12.batcher")
    def body_errors_propagate():
        """Reading the response body: a frame error (connection lost mid-response) is an error of the request, never 'end of body'."""
        ks = [k for k in P.bodies if "BufNext" in k and k.endswith("::poll") and k.startswith("<emit_otlp::client::http::HttpResponse::stream_payload")]
        if not ks:
            raise mir.AnchorMissing("the response-body future in HttpResponse::stream_payload")
        b = P.body(ks[0])
        pf = [c for c in b.calls(normal_only=True) if c.callee.get("name") == "poll_frame"]
        if len(pf) != 1:
            raise mir.AnchorMissing("poll_frame in the response-body future")
        seen_err = 0
        for rb in b.return_blocks():
            for path in b.acyclic_paths(0, rb, limit=3000):
                ps = mir.PathSummary(b, path)
                ds = [tuple(v) for s_, o, v in ps.decisions() if o[0] == "discr" and common.has_root(o, "callsite", pf[0].bb)]
                # Poll::Ready(0) / Option::Some(1) / Result::Err(1) of the frame
                if len(ds) >= 3 and ds[0] in (("0",), (0,)) and ds[1] in (("1",), (1,)) and ds[2] in (("1",), (1,)):
                    seen_err += 1
                    r = ps.ret()
                    inner = r[2][0] if r[0] == "agg" and r[2] else None
                    if not (inner is not None and inner[0] == "agg" and inner[1].get("variant") == "Err"):
                        return False, ("when reading the response body fails (connection lost after the headers) the future yields %s instead of an "
                                       "error: a gRPC request whose grpc-status trailer never arrived would count as acknowledged and never be sent "
                                       "again" % o_str(r)), [], pf[0].loc
        if not seen_err:
            return False, ("the response-body future has no arm for a failed frame (Some(Err(_))): a read error is treated like another outcome "
                           "(end of body / success)"), [], pf[0].loc
        sp = P.body("emit_otlp::client::http::HttpResponse::stream_payload::{closure#0}") if P.has_body("emit_otlp::client::http::HttpResponse::stream_payload::{closure#0}") else None
        return True, "", [pf[0].loc]
    chk.ob("C12.R5:body-errors-propagate", "a failed read of the response body fails the request (it is not mistaken for the end of the body)", body_errors_propagate)

    def grpc_frame():
        """gRPC length-prefixed framing: 1 flag byte (1 iff the body is compressed) + the payload length as 4 big-endian bytes."""
        bodies = [b for b in P.by_crate["emit_otlp"] if [c for c in b.calls(normal_only=True) if c.callee.get("name") == "with_content_frame"]]
        if len(bodies) != 1:
            raise mir.AnchorMissing("the one closure that frames gRPC requests (found %d)" % len(bodies))
        b = bodies[0]
        cs = [c for c in b.calls(normal_only=True) if c.callee.get("name") == "with_content_frame"]
        flags = {}
        for c in cs:
            o = b.origin(c.args[1])
            if o[0] != "agg" or o[1].get("ak") != "array" or len(o[2]) != 5:
                return False, "the frame header at %s is not a 5-byte array literal" % c.loc, [], c.loc
            flag = mir.o_const_value(o[2][0])
            for k, x in enumerate(o[2][1:]):
                if not (x[0] == "index" and len(x) > 2 and mir.o_const_value(x[2]) == k):
                    return False, "byte %d of the frame header at %s is %s, expected byte %d of the big-endian length" % (k + 1, c.loc, o_str(x), k), [], c.loc
                src = x[1]
                if not (src[0] == "call" and src[1].callee.get("name") == "to_be_bytes" and "u32" in (src[1].callee.get("path") or "")):
                    return False, "the length prefix at %s is %s, not u32::to_be_bytes" % (c.loc, o_str(src)), [], c.loc
                rr = common.roots(src)
                ln = [cc for cc in b.calls(normal_only=True) if cc.callee.get("name") == "content_payload_len"]
                if len(ln) != 1 or ("callsite", ln[0].bb) not in rr:
                    return False, "the length prefix does not derive from the request's content_payload_len()", [], c.loc
            compressed = None
            for gbb, vals, n in b.guards_of(c.bb):
                so = b.switch_origin(gbb)
                x = so[1] if so[0] == "discr" else so
                if x[0] == "call" and x[1].callee.get("name") == "take_content_encoding_header":
                    compressed = list(vals) == ["1"]
            if compressed is None:
                return False, "the frame at %s is not decided by whether the body carries a content encoding" % c.loc, [], c.loc
            flags[compressed] = flag
        if flags != {True: 1, False: 0}:
            return False, "compressed-flag byte per arm is %s; it must be 1 exactly when the body is compressed" % flags, [], cs[0].loc
        return True, "", [c.loc for c in cs]
    chk.ob("C12.R7:grpc-frame", "a gRPC request is framed as flag (1 iff compressed) + big-endian u32 length of the payload it carries", grpc_frame)

    # "Flush reports success only after all of this has happened": every configured signal is flushed (shared with C07)
    from . import c07
    batcher.when_flushed_table(chk, P, "C12.flush")
    batcher.receiver_flags(chk, P, "C12.flush")
    batcher.one_critical_section(chk, P, "C12.flush")

    def poison_takes():
        """HttpConnection::poison empties the connection slot on every path and returns what it took: while a request is in flight the slot
        holds nothing, so a request that fails never puts a broken connection back (unpoison is only reached on success) and the next
        request opens a fresh one - for either protocol version."""
        b = P.body("emit_otlp::client::http::HttpConnection::poison")
        tk = [c for c in b.calls(normal_only=True) if c.callee.get("name") in ("take",) and "Option" in (c.callee.get("path") or "")]
        if len(tk) != 1 or not b.must_pass([tk[0].bb]):
            return False, ("HttpConnection::poison does not empty the connection slot on every path (Option::take call sites: %d): a connection that "
                           "stays in the slot is handed to the next request even after this one failed on it, so a broken connection is never replaced"
                           % len(tk)), [], b.span
        r = mir.o_root(b.origin(0))
        if not (r[0] == "call" and r[1].bb == tk[0].bb):
            return False, "HttpConnection::poison returns %s, not the connection it took out of the slot" % o_str(b.origin(0)), [], b.span
        lk = [c for c in b.calls(normal_only=True) if c.callee.get("name") == "lock"]
        if len(lk) != 1 or mir.o_field_path(b.origin(lk[0].args[0], through_calls=("deref",)))[1][-1:] != ["sender"]:
            return False, "poison must take from self.sender under its lock", [], b.span
        return True, "", [tk[0].loc]
    chk.ob("C12.R4:poison-empties-slot", "taking the connection for a request empties the slot unconditionally (for HTTP/1 and HTTP/2 alike)", poison_takes)
    c07.end_to_end(chk, P, "C12.flush", only=("R5:OtlpInner::blocking_flush", "R5:Otlp::blocking_flush", "R5:otlp-transport"))
    common.builder_rules(chk, P, "C12", lambda b: b.crate == "emit_otlp" and ("Builder::" in b.key or "HttpContent::" in b.key), 10)
    # request grouping: the OTLP channel's clear() resets every field push() updates or len() reads (shared with C09)
    batcher.channel_impls(chk, P, "C12.channel")
    if not getattr(chk, "_overlay", None):
        common.linear_types_rule(chk, P, "C12.R4:halves-are-linear", "the channel halves cannot be copied (dropping one copy would close the channel under the other)",
                                 {"emit_batcher::Sender": "Drop for Sender closes the channel: the first copy dropped stops the receiver while the others still send, "
                                                          "their items are discarded and a flush reports success at once",
                                  "emit_batcher::Receiver": "two receivers would take batches concurrently and both clear is_in_batch"})

    def payload_len_is_bytes():
        """EncodedPayload::len feeds content-length and the size-based request grouping: it is the number of *bytes* of either form (the cursor
        that sends the body counts bytes).  A character or element count is shorter for any non-ASCII JSON, so the body is cut off."""
        b = P.body("emit_otlp::data::EncodedPayload::len")
        names = [c.callee.get("name") for c in b.calls(normal_only=True)]
        bad = [n for n in names if n in ("chars", "count", "char_indices", "graphemes", "lines", "split", "encode_utf16")]
        if bad:
            return False, ("EncodedPayload::len counts with %s: content-length must be the body's byte length (a multi-byte character makes the "
                           "declared length shorter than the body, the collector reads truncated JSON and rejects every retry)" % bad[0]), [], b.span
        lens = [c for c in b.calls(normal_only=True) if c.callee.get("name") == "len"]
        if len(lens) < 2:
            return False, "EncodedPayload::len must return the byte length of each form (len() calls: %d)" % len(lens), [], b.span
        return True, "", [c.loc for c in lens]
    chk.ob("C12.R7:payload-length-in-bytes", "the payload length used for content-length and request grouping is a byte count for both encodings", payload_len_is_bytes)

    def awaited_results_checked():
        """In the OTLP client's async code the outcome of every awaited workspace future that yields a Result is inspected: `fut.await?`, a
        match, or the value returned / passed on - never `fut.await;` (the gRPC status starts at 0 = OK and is only overwritten by a trailer, so
        a response stream that fails before its trailers would count as acknowledged)."""
        n, ev = 0, []
        for b in P.bodies.values():
            if b.crate != "emit_otlp" or "/client" not in b.file or "::tests::" in b.key:
                continue
            polls = [c for c in b.calls(normal_only=True) if c.callee.get("name") == "poll" and c.callee.get("trait") == "core::future::future::Future"]
            for pc in polls:
                fut = b.origin(pc.args[0], through_calls=("new_unchecked", "as_mut", "deref_mut", "get_unchecked_mut", "map_unchecked_mut"))
                fut = mir.o_root(fut)
                if not (fut[0] == "call" and fut[1].callee.get("name") == "into_future" and fut[1].args):
                    continue
                made = mir.o_root(b.origin(fut[1].args[0]))
                if not (made[0] == "call" and (made[1].callee.get("path") or "").startswith("emit_otlp::")):
                    continue
                ty = b.local_ty(pc.dest["l"]) if pc.dest and "p" not in pc.dest else ""
                if "Poll<core::result::Result<" not in ty and "Poll<Result<" not in ty:
                    continue
                n += 1
                # simpler and sufficient: some Try::branch / discriminant switch / return in this body derives from this poll's payload
                derived = False
                for c2 in b.calls(normal_only=True):
                    if c2.callee.get("name") in ("branch", "map_err", "map", "and_then", "unwrap_or", "unwrap_or_else", "is_ok", "is_err", "ok") and c2.args:
                        r = mir.o_root(b.origin(c2.args[0]))
                        if r[0] == "call" and r[1].bb == pc.bb:
                            derived = True
                for sbb, t2 in b.switches():
                    so = b.switch_origin(sbb)
                    if so[0] == "discr":
                        r = so[1]
                        d = 0
                        while r[0] in ("field", "downcast", "ref", "deref", "copy") and d < 6:
                            if r[0] == "downcast" and r[2] == "Ready":
                                pass
                            r = r[1]
                            d += 1
                        # the Poll discriminant itself does not count; a discriminant of the payload does
                        if r[0] == "call" and r[1].bb == pc.bb and so[1][0] != "call":
                            derived = True
                leaves = [b.origin(0)]
                for _ in range(40):
                    if not leaves:
                        break
                    x = leaves.pop()
                    if x[0] == "phi":
                        leaves.extend(x[1])
                        continue
                    ro = mir.o_root(x)
                    if ro[0] == "call" and ro[1].bb == pc.bb:
                        derived = True
                    elif ro[0] == "agg":
                        leaves.extend(ro[2])
                # passed on as an argument / stored
                for c2 in b.calls(normal_only=True):
                    for a in c2.args:
                        r = b.origin(a)
                        if r[0] in ("field", "downcast") and mir.o_root(r)[0] == "call" and mir.o_root(r)[1].bb == pc.bb and c2.callee.get("name") not in ("poll", "drop", "drop_in_place", "get_context"):
                            derived = True
                if not derived:
                    return False, ("%s awaits %s at %s and drops its Result: a failure of that step is not propagated, so the request it belongs to counts "
                                   "as acknowledged" % (b.key, made[1].callee.get("path"), made[1].loc)), [], made[1].loc
                ev.append(made[1].loc)
        if n < 4:
            raise mir.AnchorMissing("awaited Result-yielding client futures (found %d)" % n)
        return True, "", ["%d awaited results inspected" % n]
    chk.ob("C12.R8:awaited-results-inspected", "no awaited client future's Result is dropped", awaited_results_checked)

    def connection_driven():
        """hyper hands back (sender, connection): requests sent through the sender only make progress while the connection future is being polled.
        Each handshake drives the connection it created (awaits it in a spawned task) before handing the sender out."""
        ev = []
        for k, b in P.bodies.items():
            if b.crate != "emit_otlp" or not re.search(r"client::http::http[12]_handshake::\{closure#0\}$", k):
                continue
            hs = [c for c in b.calls(normal_only=True) if c.callee.get("name") == "handshake"]
            sp = [c for c in b.calls(normal_only=True) if c.callee.get("name") == "spawn" and "tokio" in (c.callee.get("path") or "")]
            if not hs:
                raise mir.AnchorMissing("the hyper handshake call in %s" % k)
            if len(sp) < len(hs):
                return False, "http_handshake performs %d handshakes but spawns %d connection drivers" % (len(hs), len(sp)), [], b.span
            for s1 in sp:
                cl = mir.o_root(b.origin(s1.args[0]))
                if not (cl[0] == "agg" and cl[1].get("def") in P.bodies):
                    return False, "the spawned task at %s is not an async block" % s1.loc, [], s1.loc
                tb = P.bodies[cl[1]["def"]]
                polled = [c for c in tb.calls(normal_only=True) if c.callee.get("name") == "poll" and c.callee.get("trait") == "core::future::future::Future"]
                if not polled:
                    return False, ("the task spawned at %s never awaits the connection it captured: requests on this connection are sent into a "
                                   "connection nobody drives, so they never complete" % s1.loc), [], s1.loc
                ev.append(s1.loc)
        if len(ev) < 2:
            raise mir.AnchorMissing("the HTTP/1 and HTTP/2 handshakes (found %d connection drivers)" % len(ev))
        return True, "", ev
    chk.ob("C12.R4:connection-driven", "every HTTP connection that is handed out is being driven by a spawned task", connection_driven)

    def request_size_accounting():
        """Requests are grouped by size: Channel::push starts a new request when the current one has reached the limit, so the running size must
        follow the pushes - set to the incoming size when a request is started and increased by it when the event joins the current request."""
        b = P.impl_method("emit_batcher::Channel", "emit_otlp::client::Channel", "push")
        stores = []
        for bb, j2, st in b.statements(normal_only=True):
            if st["k"] == "assign" and st["place"].get("p") and [p.get("n") for p in st["place"]["p"] if isinstance(p, dict) and "n" in p][-1:] == ["current_request_size_bytes"]:
                o = b.origin(st["rv"]["op"]) if st["rv"]["k"] == "use" else ("unknown",)
                stores.append((bb, o))
        pushes = [c for c in b.calls(normal_only=True) if c.callee.get("name") == "push"]
        starts = [c for c in pushes if "Vec" in (c.callee.get("path") or "")]
        joins = [c for c in pushes if c not in starts]
        if len(stores) < 2:
            return False, ("Channel::push updates current_request_size_bytes at %d sites (expected two: started and joined): the size that decides when "
                           "to start a new request no longer follows what was pushed, so requests outgrow max_request_size_bytes or split on every "
                           "event" % len(stores)), [], b.span
        for rb in b.return_blocks():
            for path in b.acyclic_paths(0, rb, limit=2000):
                if not any(bb in path for bb, o in stores):
                    return False, "a path through Channel::push adds an event without updating the running request size", [], b.span
        return True, "", ["%d size updates, one on every path" % len(stores)]
    chk.ob("C12.R2:request-size-accounting", "the running request size is updated on every push (set on a new request, increased on a joined one)", request_size_accounting)
    channel_metrics_wiring(chk, P, "C12.R9:channel-metrics-wiring")
    request_hook_rule(chk, P, "C12.R4:request-hook")
    from . import shapes
    shapes.tls_iff_https(chk, P, "C12.R4:tls-iff-https")
    shapes.response_read_to_end(chk, P, "C12.R5:response-read-to-end")
    shapes.grpc_status_in_headers_too(chk, P, "C12.R5:grpc-status-in-headers")
    shapes.every_handler_checks_http_status(chk, P, "C12.R5:every-handler-checks-http-status")
    shapes.end_stream_iff_nothing_left(chk, P, "C12.R10:end-of-request-body")
    shapes.gzip_consumes_payload(chk, P, "C12.R10:gzip-consumes-payload")
    shapes.url_join_one_separator(chk, P, "C12.R9:url-join")
    _call = lambda nm: (lambda o, b: o[0] == "call" and o[1].callee.get("name") == nm)
    shapes.returns_binop(chk, P, "C12.R10:content-length", "the declared content length of a request is its framing prefix plus its payload",
                         "emit_otlp::client::http::HttpContent::content_len", "Add", _call("content_frame_len"), _call("content_payload_len"),
                         "the Content-Length header would not match the body that is sent: the collector rejects the request or waits for bytes that never come")
    shapes.retry_when_nonempty(chk, P, "C12.batcher:retry-when-nonempty")
    return chk
