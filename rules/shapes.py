"""Small exact-shape rules that came out of the operator-mutation sweep of round 11 (selftest/sweep.py): each pins the *polarity* or the
*operator* of one decision whose structure an older rule already looked at (which tests exist, what they guard) without fixing which way
round it goes.  Every rule is phrased over resolved callees, provenance and CFG edges - never over source text."""
import re

from . import common, mir
from .mir import o_str


def _edges(t):
    return [(str(v), n) for v, n in t["targets"]] + [("otherwise", t["otherwise"])]


def _returns_from(b, start, limit=400):
    out = []
    for rb in b.return_blocks():
        if rb != start and rb not in b.reachable_from(start):
            continue
        for path in ([[start]] if rb == start else b.acyclic_paths(start, rb, limit=limit)):
            out.append(mir.PathSummary(b, path).ret())
    return out


def _all_const(b, start, value):
    rs = _returns_from(b, start)
    return bool(rs) and all(mir.o_const_value(r) is value for r in rs)


# ---- C11: a name that fails a membership test is not a member ------------------------------------------------------------------------------

def non_members_rejected(chk, P, key):
    def f():
        b = P.body("emit_file::is_file_in_set")
        ev = []
        for bb, t in b.switches():
            so = b.switch_origin(bb)
            if so[0] != "discr" or so[1][0] != "call":
                continue
            c = so[1][1]
            if c.callee.get("name") not in ("and_then", "strip_prefix", "strip_suffix", "split_once", "rsplit_once", "map", "filter", "then", "then_some"):
                continue
            listed = {v for v, n in _edges(t)}
            for v, n in _edges(t):
                none_edge = (v == "0") or (v == "otherwise" and "0" not in listed)
                if none_edge and not _all_const(b, n, False):
                    return False, ("a file name that fails the prefix / extension / separator test at %s is still reported as a member of the set: every "
                                   "foreign file in the directory would be listed as the set's own, deleted by retention and reused" % c.loc), [], c.loc
            ev.append(c.loc)
        for bb, t in b.switches():
            so, pos = mir.norm_bool(b.switch_origin(bb))
            if so[0] == "call" and so[1].callee.get("name") in ("starts_with", "ends_with", "eq"):
                for v, n in _edges(t):
                    if ((v != "0") == pos) is False and not _all_const(b, n, False):
                        return False, "a file name that fails %s at %s is still a member" % (so[1].callee.get("name"), so[1].loc), [], so[1].loc
                ev.append(so[1].loc)
        if not ev:
            raise mir.AnchorMissing("a membership test in emit_file::is_file_in_set")
        return True, "", ev
    chk.ob(key, "a directory entry whose name fails a membership test is not a member of the file set", f)


# ---- C08: block_in_place only on a multi-thread runtime --------------------------------------------------------------------------------------

def block_in_place_polarity(chk, P, key):
    """`tokio::task::block_in_place` panics on a current-thread runtime.  Every call of it in the batcher's tokio adaptors lies on the edge where the
    current handle's `runtime_flavor()` *equals* `RuntimeFlavor::MultiThread` (not merely behind some test of the flavour)."""
    def f():
        ev, n = [], 0
        for k, b in sorted(P.bodies.items()):
            if b.crate != "emit_batcher":
                continue
            for c in b.calls(normal_only=True):
                if c.callee.get("name") != "block_in_place":
                    continue
                n += 1
                ok = False
                for gbb, vals, tgt in b.guards_of(c.bb):
                    so, pos = mir.norm_bool(b.switch_origin(gbb))
                    if so[0] == "call" and so[1].callee.get("name") in ("eq", "ne") and so[1].args:
                        flav = any(mir.o_is_call(b.origin(a, through_calls=("deref",)), name="runtime_flavor") or "runtime_flavor" in o_str(b.origin(a)) for a in so[1].args)
                        multi = any("MultiThread" in o_str(b.origin(a)) or "MultiThread" in str(b.origin(a)) for a in so[1].args)
                        if not (flav and multi):
                            continue
                        taken_true = "0" not in [str(v) for v in vals]
                        equal = (taken_true == pos) if so[1].callee.get("name") == "eq" else (taken_true != pos)
                        if equal:
                            ok = True
                        else:
                            return False, ("%s calls block_in_place at %s where the runtime flavour is *not* MultiThread: it panics on a current-thread runtime "
                                           "(and the multi-thread runtime, which could hand its work on, blocks a worker instead)" % (k, c.loc)), [], c.loc
                    if so[0] == "discr" and "runtime_flavor" in o_str(so):
                        # a `match flavor { MultiThread => .. }` form
                        adt = P.adt("tokio::runtime::runtime::RuntimeFlavor") if "tokio::runtime::runtime::RuntimeFlavor" in getattr(P, "adts", {}) else None
                        ok = ok or adt is None
                if not ok:
                    return False, "%s calls block_in_place at %s without having established that the runtime is multi-threaded" % (k, c.loc), [], c.loc
                ev.append(c.loc)
        if n < 2 and not getattr(chk, "_overlay", None):
            raise mir.AnchorMissing("block_in_place calls in the batcher's tokio adaptors (found %d)" % n)
        return True, "", ev
    chk.ob(key, "block_in_place is only called on the MultiThread edge of the runtime-flavour test", f)


# ---- C07 / C08: the flush trigger starts unset -----------------------------------------------------------------------------------------------

def trigger_starts_unset(chk, P, key):
    def f():
        bs = [b for k, b in P.bodies.items() if k == "emit_batcher::sync::Trigger::new"]
        if not bs:
            raise mir.AnchorMissing("emit_batcher::sync::Trigger::new")
        b = bs[0]
        ms = [c for c in b.calls(normal_only=True) if c.callee.get("name") == "new" and "Mutex" in (c.callee.get("path") or c.callee.get("full") or "")]
        if len(ms) != 1:
            raise mir.AnchorMissing("the Mutex::new of the trigger's flag")
        v = mir.o_const_value(b.origin(ms[0].args[0]))
        if v is not False:
            return False, ("a new Trigger's flag starts as %r: a blocking flush would find it set before the receiver has processed anything and report success "
                           "at once" % (v,)), [], ms[0].loc
        return True, "", [ms[0].loc]
    chk.ob(key, "the flag a blocking flush waits on starts unset", f)


# ---- C18: ExcludeTraceparentProps hides the ids exactly when `check` is set; incoming_traceparent sets it exactly when it mapped the props ------

def exclude_props_polarity(chk, P, key):
    def f():
        ev = []
        n = 0
        for k, b in sorted(P.bodies.items()):
            if b.crate != "emit_traceparent" or b.is_closure or "ExcludeTraceparentProps" not in (b.self_ty or "") or b.method != "for_each":
                continue
            n += 1
            fe = [c for c in b.calls(normal_only=True) if c.callee.get("name") == "for_each"]
            sw = [(bb, t) for bb, t in b.switches() if "check" in o_str(mir.norm_bool(b.switch_origin(bb))[0])]
            if len(sw) != 1 or len(fe) != 2:
                raise mir.AnchorMissing("the `check` test and the two enumerations of ExcludeTraceparentProps::for_each")
            bb, t = sw[0]
            so, pos = mir.norm_bool(b.switch_origin(bb))
            for v, nxt in _edges(t):
                check_true = ((v != "0") == pos)
                reach = set(b.reachable_from(nxt))
                here = [c for c in fe if c.bb in reach]
                if len(here) != 1:
                    raise mir.AnchorMissing("one enumeration per outcome of the `check` test")
                clo = b.origin(here[0].args[1])
                filtered = clo[0] == "agg" and clo[1].get("ak") == "closure"
                if check_true != filtered:
                    return False, ("ExcludeTraceparentProps::for_each %s the trace / span id keys when `check` is %s: the ids synthesised from the traceparent and "
                                   "the ones carried in the wrapped props would %s" % ("passes on" if check_true else "filters", check_true,
                                   "both be enumerated (duplicate, possibly stale ids)" if check_true else "be hidden although no traceparent replaced them")), [], here[0].loc
            ev.append(b.span)
        if n < 1:
            raise mir.AnchorMissing("ExcludeTraceparentProps::for_each")
        inc = P.body("emit_traceparent::incoming_traceparent")
        m = 0
        for rb in inc.return_blocks():
            for path in inc.acyclic_paths(0, rb, limit=4000):
                ps = mir.PathSummary(inc, path)
                r = ps.ret()
                if r[0] != "agg" or len(r[2]) != 2:
                    continue
                slot, props = r[2]
                if props[0] != "agg" or "check" not in (props[1].get("fields") or []):
                    continue
                chk_v = mir.o_const_value(dict(zip(props[1]["fields"], props[2]))["check"])
                mapped = slot[0] == "agg" and slot[1].get("variant") == "Some"
                unmapped = slot[0] == "agg" and slot[1].get("variant") == "None"
                if not (mapped or unmapped) or chk_v not in (True, False):
                    continue
                m += 1
                if chk_v != mapped:
                    return False, ("incoming_traceparent returns check = %s together with %s: the id keys are filtered exactly when the props were mapped to a "
                                   "traceparent (which then supplies them)" % (chk_v, "a traceparent" if mapped else "no traceparent")), [], inc.span
        if m < 3:
            raise mir.AnchorMissing("the mapped / unmapped returns of incoming_traceparent (found %d)" % m)
        return True, "", ev + [inc.span]
    chk.ob(key, "the id keys of wrapped props are hidden exactly when a traceparent was derived from them", f)


# ---- conjunctions returned by small predicates ----------------------------------------------------------------------------------------------

def conjunction_rule(chk, P, key, doc, body_key, atoms, why):
    """A predicate returns true exactly when *all* the named tests hold: enumerating its paths, every path that returns true took the positive
    edge of each atom it passed and passed all of them; every path on which some atom failed returns false.  atoms: list of (label, matcher(origin))."""
    def f():
        b = P.body(body_key)
        seen_true = 0
        for rb in b.return_blocks():
            for path in b.acyclic_paths(0, rb, limit=2000):
                ps = mir.PathSummary(b, path)
                dec = {}
                for sbb, o, vals in ps.decisions():
                    o2, pos = mir.norm_bool(o)
                    for lab, m in atoms:
                        if m(o2, b):
                            vs = [str(v) for v in (vals if isinstance(vals, (list, tuple)) else (vals,))]
                            dec[lab] = (("0" not in vs) == pos)
                r = ps.ret()
                rv = mir.o_const_value(r)
                if rv is None:
                    # the last atom's own value is returned
                    r2, pos = mir.norm_bool(r)
                    last = [lab for lab, m in atoms if m(r2, b)]
                    if not last:
                        return False, "%s returns %s, which is none of the expected tests" % (body_key, o_str(r)[:100]), [], b.span
                    if not pos:
                        return False, "%s returns the negation of `%s`" % (body_key, last[0]), [], b.span
                    missing = [lab for lab, m in atoms if lab not in dec and lab != last[0]]
                    if missing or not all(dec.values()):
                        return False, ("%s answers with `%s` alone on a path where %s: %s" % (body_key, last[0],
                                       ("`%s` was not tested" % missing[0]) if missing else "another test had failed", why)), [], b.span
                    seen_true += 1
                    continue
                if rv is True:
                    missing = [lab for lab, m in atoms if lab not in dec]
                    if missing or not all(dec.values()):
                        return False, "%s returns true although `%s` %s: %s" % (body_key, (missing or [l for l, v in dec.items() if not v])[0],
                                                                                 "was not tested" if missing else "failed", why), [], b.span
                    seen_true += 1
                elif rv is False:
                    if dec and all(dec.values()) and len(dec) == len(atoms):
                        return False, "%s returns false although every test held" % body_key, [], b.span
        if not seen_true:
            return False, "%s never answers true" % body_key, [], b.span
        return True, "", [b.span]
    chk.ob(key, doc, f)


# ---- C15: every separator of the traceparent header is checked on its own ------------------------------------------------------------------------

def separators_each_checked(chk, P, key):
    def f():
        b = P.body("emit_traceparent::Traceparent::try_from_str")
        ev = []
        for bb, t in b.switches():
            so, pos = mir.norm_bool(b.switch_origin(bb))
            if so[0] != "binop" or so[1] not in ("Ne", "Eq"):
                continue
            if not any(mir.o_const_value(x) == 45 for x in (so[2], so[3])):    # b'-'
                continue
            for v, n in _edges(t):
                holds = ((v != "0") == pos)
                differs = holds if so[1] == "Ne" else not holds
                if not differs:
                    continue
                rs = _returns_from(b, n)
                if not rs or not all(r[0] == "agg" and r[1].get("variant") == "Err" for r in rs):
                    return False, ("a byte that is not `-` at a separator position of the traceparent header (test at %s:%s) does not by itself reject the "
                                   "header: text with a wrong separator parses as long as another one is right" % (b.file, t.get("line"))), [], "%s:%s" % (b.file, t.get("line"))
            ev.append("%s:%s" % (b.file, t.get("line")))
        if len(ev) < 3:
            raise mir.AnchorMissing("the three separator comparisons of Traceparent::try_from_str (found %d)" % len(ev))
        return True, "", ev
    chk.ob(key, "each of the three `-` separators of a traceparent header is required on its own", f)


# ---- arithmetic operators of one-line accessors ------------------------------------------------------------------------------------------------

def returns_binop(chk, P, key, doc, body_key, op, left, right, why):
    """`body_key` returns `left <op> right` (matchers over origins), on every path."""
    def f():
        b = P.body(body_key)
        for rb in b.return_blocks():
            for path in b.acyclic_paths(0, rb, limit=200):
                r = mir.PathSummary(b, path).ret()
                x = r
                while x[0] in ("field", "cast", "copy") and x[1][0] != "param":
                    x = x[1]
                if not (x[0] == "binop" and x[1].replace("WithOverflow", "").replace("Unchecked", "") == op and left(x[2], b) and right(x[3], b)):
                    return False, "%s returns %s: %s" % (body_key, o_str(r)[:120], why), [], b.span
        return True, "", [b.span]
    chk.ob(key, doc, f)


def remaining_time_shrinks(chk, P, key, body_keys):
    """Wherever a blocking entry point passes on, or loops with, the time *left* of its timeout, that time is `timeout - elapsed` (checked_sub /
    saturating_sub / `-`): no addition to a timeout, so the call cannot outlast the caller's bound."""
    def f():
        ev = []
        for bk in body_keys:
            bs = [b for k, b in P.bodies.items() if k == bk or k.startswith(bk + "::{closure")]
            if not bs:
                if getattr(chk, "_overlay", None):
                    continue
                raise mir.AnchorMissing(bk)
            n = 0
            for b in bs:
                for c in b.calls(normal_only=True):
                    nm = c.callee.get("name") or ""
                    full = c.callee.get("path") or c.callee.get("full") or ""
                    if "Duration" not in full and "Duration" not in (c.callee.get("self_ty") or ""):
                        continue
                    if nm in ("checked_add", "saturating_add", "add", "add_assign", "mul", "checked_mul", "saturating_mul", "mul_f32", "mul_f64"):
                        return False, ("%s grows a timeout with Duration::%s at %s: the time left must shrink by the time already spent, or the call can "
                                       "block past the caller's timeout" % (b.key, nm, c.loc)), [], c.loc
                    if nm in ("checked_sub", "saturating_sub", "sub"):
                        if any(mir.o_is_call(b.origin(a), name="elapsed") or "elapsed" in o_str(b.origin(a)) for a in c.args[1:]):
                            n += 1
                            ev.append(c.loc)
            if n < 1:
                raise mir.AnchorMissing("a `timeout - elapsed` step in %s" % bk)
        return True, "", ev
    chk.ob(key, "the time left of a blocking call's timeout is the timeout minus the time spent, never more", f)


def retry_when_nonempty(chk, P, key):
    """The branch on the remainder's length in the retry decision sends a *non-empty* remainder to the re-submission."""
    def f():
        from . import batcher
        b = P.body(batcher.EXEC)
        (oh, obody), (ih, ibody) = batcher.exec_loops(b)
        site = None
        for bb, j, st in b.statements(normal_only=True):
            if st["k"] == "assign" and st["rv"]["k"] == "agg" and (st["rv"].get("adt") or "").endswith("::Batch") and bb in ibody \
                    and "retryable" in o_str(b.origin(st["rv"]["ops"][0])):
                site = bb
        if site is None:
            raise mir.AnchorMissing("the re-submission of the retryable remainder")
        n = 0
        for g, vals, tgt in b.guards_of(site):
            if g not in ibody:
                continue
            so, pos = mir.norm_bool(b.switch_origin(g))
            taken = ("0" not in [str(v) for v in vals]) == pos
            if so[0] == "call" and so[1].callee.get("name") == "is_empty":
                n += 1
                if taken:
                    return False, "the remainder is re-submitted when it is empty", [], so[1].loc
            c = mir.norm_cmp(so, lambda o: o[0] == "call" and o[1].callee.get("name") == "len" or (o[0] == "cast" and "len" in o_str(o)))
            if c is None:
                continue
            op, l, r = c
            k = mir.o_const_value(r)
            if not isinstance(k, int):
                continue
            n += 1
            # the set of lengths sent to the re-submission on the taken edge
            sat = lambda x: {"Gt": x > k, "Ge": x >= k, "Lt": x < k, "Le": x <= k, "Eq": x == k, "Ne": x != k}[op]
            lens = [x for x in (0, 1, 2, 7) if sat(x) == taken]
            if 0 in lens or not all(x in lens for x in (1, 2, 7)):
                return False, ("the retry decision sends a remainder of length %s to the re-submission (test `len %s %d`, %s edge): a non-empty remainder "
                               "must be retried and an empty one must not" % (lens, op, k, "true" if taken else "false")), [], "%s:%s" % (b.file, b.blocks[g]["term"].get("line"))
        if n < 1:
            raise mir.AnchorMissing("the emptiness test of the retry decision")
        return True, "", [b.span]
    chk.ob(key, "a remainder is re-submitted exactly when it is non-empty (and the budget allows)", f)


# ---- C13: the running sum of a count / sum metric adds each sample ---------------------------------------------------------------------------

def sum_points_add(chk, P, key):
    def f():
        ev, n = [], 0
        for k, b in sorted(P.bodies.items()):
            if b.crate != "emit_otlp" or b.is_closure or "SumPoints<" not in (b.self_ty or "") or b.method not in ("push_point_i64", "push_point_f64"):
                continue
            bodies = [b] + P.closures_of(b)
            n += 1
            ops = []
            for x in bodies:
                for bb, j, st in x.statements(normal_only=True):
                    rv = st.get("rv") if st["k"] == "assign" else None
                    if rv and rv["k"] == "binop" and rv["op"].replace("WithOverflow", "") in ("Add", "Sub", "Mul", "Div", "Rem", "BitOr", "BitAnd", "BitXor"):
                        ops.append((x, rv, st))
                for c in x.calls(normal_only=True):
                    if re.match(r"(checked|saturating|wrapping|overflowing)_(add|sub|mul|div)$", c.callee.get("name") or ""):
                        ops.append((x, {"op": c.callee.get("name")}, {"line": c.loc}))
            if not ops:
                raise mir.AnchorMissing("the accumulation in %s" % k)
            # where the integer sum overflows, what is stored instead still derives from the two operands (the sum carried on as a double) - a constant
            # stand-in (+Infinity) reports a hugely *negative* total as positive infinity
            for x in bodies:
                for c in x.calls(normal_only=True):
                    def _from_checked(o_, d_=0):
                        while o_[0] == "call" and d_ < 6:
                            if (o_[1].callee.get("name") or "").startswith("checked_"):
                                return True
                            if not o_[1].args:
                                return False
                            o_ = o_[1].body.origin(o_[1].args[0])
                            d_ += 1
                        return False
                    if c.callee.get("name") in ("unwrap_or", "unwrap_or_else", "unwrap_or_default") and c.args and _from_checked(x.origin(c.args[0])):
                        if c.callee.get("name") == "unwrap_or_default":
                            return False, "%s replaces an overflowing sum by the default value" % k, [], c.loc
                        fb = x.origin(c.args[1])
                        rts = common.deep_roots(P, x, fb)
                        if not any(r_[0] == "param" for r_ in rts):
                            return False, ("%s replaces an integer sum that overflows by %s, which does not depend on the samples: a total below i64::MIN is exported as "
                                           "+Infinity (and one above i64::MAX loses its magnitude)" % (k, o_str(fb)[:60])), [], c.loc
            for x, rv, st in ops:
                o = rv["op"].replace("WithOverflow", "")
                if not (o == "Add" or o.endswith("_add")):
                    return False, ("%s accumulates a sample with `%s`: the exported sum of a sequence-valued count / sum metric is no longer the sum of its "
                                   "samples" % (k, o)), [], b.span
            ev.append(b.span)
        if n < 2:
            raise mir.AnchorMissing("SumPoints::push_point_i64 / push_point_f64 (found %d)" % n)
        return True, "", ev
    chk.ob(key, "the data point of a count / sum metric accumulates every sample by addition", f)


def range_is_end_minus_start(chk, P, key):
    """In RawPointSet::into_points the span the points are spread over is `time_unix_nano - start_time_unix_nano` (parameters 3 and 2, in that order)."""
    def f():
        bs = [b for k, b in P.bodies.items() if "RawPointSet" in k and k.endswith("::into_points")]
        if not bs:
            raise mir.AnchorMissing("RawPointSet::into_points")
        b = bs[0]
        subs = [c for c in b.calls(normal_only=True) if re.match(r"(checked|saturating|wrapping)_(sub|add)$", c.callee.get("name") or "")]
        subs = [c for c in subs if any(mir.o_is_param(b.origin(a), idx=2) or mir.o_is_param(b.origin(a), idx=3) for a in c.args)]
        if len(subs) != 1:
            raise mir.AnchorMissing("the subtraction of the extent's ends in RawPointSet::into_points (found %d)" % len(subs))
        c = subs[0]
        if not c.callee.get("name").endswith("_sub") or not mir.o_is_param(b.origin(c.args[0]), idx=3) or not mir.o_is_param(b.origin(c.args[1]), idx=2):
            return False, ("the time range the points of a sequence-valued metric are spread over is %s(%s, %s), not end - start: every point but the first "
                           "gets a time outside the sample's extent" % (c.callee.get("name"), o_str(b.origin(c.args[0])), o_str(b.origin(c.args[1])))), [], c.loc
        return True, "", [c.loc]
    chk.ob(key, "a sequence-valued metric's points are spread over end - start of its extent", f)


# ---- C11: the real file system lists regular files only --------------------------------------------------------------------------------------

def std_listing_files_only(chk, P, key):
    def f():
        bs = [b for k, b in P.bodies.items() if b.crate == "emit_file" and "StdFilesystem" in k and "read_dir_files" in k]
        clos = [b for b in bs if b.is_closure]
        if not clos:
            raise mir.AnchorMissing("the entry filter of StdFilesystem::read_dir_files")
        ev = []
        for b in clos:
            tests = [(bb, t) for bb, t in b.switches() if mir.norm_bool(b.switch_origin(bb))[0][0] == "call"
                     and mir.norm_bool(b.switch_origin(bb))[0][1].callee.get("name") == "is_file"]
            if not tests:
                continue
            bb, t = tests[0]
            so, pos = mir.norm_bool(b.switch_origin(bb))
            for v, n in _edges(t):
                is_file = ((v != "0") == pos)
                rs = _returns_from(b, n)
                some = [r for r in rs if r[0] == "agg" and r[1].get("variant") == "Some"]
                none = [r for r in rs if r[0] == "agg" and r[1].get("variant") == "None"]
                if is_file and (not some or none):
                    return False, ("StdFilesystem::read_dir_files drops a directory entry that is a regular file: the set's own files are never listed, so "
                                   "nothing is reused and retention never deletes anything"), [], so[1].loc
                if not is_file and some:
                    return False, "StdFilesystem::read_dir_files lists an entry that is not a regular file (a directory named like a log file would be opened / deleted)", [], so[1].loc
                for r in some:
                    if not any("path" in o_str(x) for x in r[2]):
                        return False, "the listed item is %s, not the entry's path" % o_str(r)[:80], [], so[1].loc
            ev.append(so[1].loc)
        if not ev:
            raise mir.AnchorMissing("an is_file() test in StdFilesystem::read_dir_files")
        return True, "", ev
    chk.ob(key, "the real file system's listing yields exactly the directory entries that are regular files, by path", f)


# ---- C12: https endpoints get a TLS handshake, http endpoints do not --------------------------------------------------------------------------

def tls_iff_https(chk, P, key):
    def f():
        ev = []
        n = 0
        for k, b in sorted(P.bodies.items()):
            if b.crate != "emit_otlp" or "client::http" not in k:
                continue
            tl = [c for c in b.calls(normal_only=True) if c.callee.get("name") == "tls_handshake"]
            if not tl:
                continue
            n += 1
            for c in tl:
                ok = False
                for gbb, vals, tgt in b.guards_of(c.bb):
                    so, pos = mir.norm_bool(b.switch_origin(gbb))
                    if so[0] == "call" and so[1].callee.get("name") == "is_https":
                        taken = ("0" not in [str(v) for v in vals]) == pos
                        if not taken:
                            return False, "%s performs the TLS handshake for an endpoint that is *not* https (and talks plain text to https endpoints)" % k, [], c.loc
                        ok = True
                if not ok:
                    return False, "%s performs a TLS handshake that does not depend on the endpoint's scheme" % k, [], c.loc
                ev.append(c.loc)
        if n < 1:
            if getattr(chk, "_overlay", None) or P.config != "K1":
                return True, "", ["no tls in this build"]
            raise mir.AnchorMissing("a tls_handshake call in emit_otlp::client::http")
        return True, "", ev
    chk.ob(key, "the TLS handshake is performed exactly for https endpoints", f)


# ---- C12: the response body is read to its end (the gRPC status lives in the trailers) ----------------------------------------------------------

def response_read_to_end(chk, P, key):
    """HttpResponse::stream_payload polls frames until the body is exhausted: the per-frame future answers Ok(true) (go on) for every frame it was
    given and Ok(false) only at the end of the stream (`None`), and the driver loops while the answer is true.  An answer of `false` after a frame stops
    before the trailers, where the gRPC status is: a rejected request would count as delivered."""
    def f():
        bs = [b for k, b in P.bodies.items() if "HttpResponse::stream_payload" in k and k.endswith("::poll")]
        if not bs:
            raise mir.AnchorMissing("the frame future of HttpResponse::stream_payload")
        b = bs[0]
        n_frame = n_end = 0
        for rb in b.return_blocks():
            for path in b.acyclic_paths(0, rb, limit=4000):
                ps = mir.PathSummary(b, path)
                r = ps.ret()
                ds = [tuple(str(x) for x in v) for _, o, v in ps.decisions() if "poll_frame" in o_str(o) and o[0] == "discr"]
                if not ds or ds[0] != ("0",):      # Pending
                    continue
                inner = r[2][0] if r[0] == "agg" and r[2] else None
                val = mir.o_const_value(inner[2][0]) if inner and inner[0] == "agg" and inner[1].get("variant") == "Ok" and inner[2] else None
                if len(ds) >= 2 and ds[1] == ("0",):      # Ready(None): end of stream
                    n_end += 1
                    if val is not False:
                        return False, "at the end of the response body the frame future answers %s, not Ok(false): the driver would poll a finished body again" % o_str(r)[:80], [], b.span
                elif len(ds) >= 3 and ds[2] == ("0",):    # Ready(Some(Ok(frame)))
                    n_frame += 1
                    if val is not True:
                        return False, ("after a frame of the response body the frame future answers %s, not Ok(true): reading stops before the trailers, so a "
                                       "non-zero grpc-status is never seen and the rejected request counts as delivered" % o_str(r)[:80]), [], b.span
        if n_frame < 1 or n_end < 1:
            raise mir.AnchorMissing("the frame / end-of-stream answers of the frame future (found %d / %d)" % (n_frame, n_end))
        # the driver: a loop around the awaited frame future that is left on the false answer
        ds_ = [d for k, d in P.bodies.items() if k.endswith("HttpResponse::stream_payload::{closure#0}")]
        if ds_:
            d = ds_[0]
            agg = [bb for bb, j, st in d.statements(normal_only=True) if st["k"] == "assign" and st["rv"]["k"] == "agg" and "BufNext" in (st["rv"].get("adt") or "")]
            if not agg or not all(d.in_cycle(bb) for bb in agg):
                return False, "the frame future is not awaited in a loop: only the first frame of the response would be read", [], d.span
        return True, "", [b.span]
    chk.ob(key, "the response body is read frame by frame to its end, trailers included", f)


def end_stream_iff_nothing_left(chk, P, key):
    """The request body tells hyper it is finished (`is_end_stream`) exactly when neither the framing prefix nor the payload is still to be sent."""
    def f():
        b = P.body("<emit_otlp::client::http::HttpContent as http_body::Body>::is_end_stream")
        n = 0
        for rb in b.return_blocks():
            for path in b.acyclic_paths(0, rb, limit=300):
                ps = mir.PathSummary(b, path)
                v = mir.o_const_value(ps.ret())
                if v not in (True, False):
                    return False, "is_end_stream returns %s, not a constant per case" % o_str(ps.ret()), [], b.span
                left = {}
                for _, o, vals in ps.decisions():
                    if o[0] == "discr":
                        nm = (mir.o_field_path(o[1])[1] or [None])[-1]
                        vs = tuple(str(x) for x in vals)
                        left[nm] = (vs == ("1",))          # Some
                n += 1
                anything = any(left.get(k_) for k_ in ("content_frame", "content_payload"))
                both_none = left.get("content_frame") is False and left.get("content_payload") is False
                if v is True and not both_none:
                    return False, ("is_end_stream answers true while %s is still to be sent: hyper stops polling the body and the request goes out truncated"
                                   % [k_ for k_ in ("content_frame", "content_payload") if left.get(k_) is not False][0]), [], b.span
                if v is False and not anything:
                    return False, "is_end_stream answers false although nothing is left to send: the request never completes", [], b.span
        if n < 3:
            raise mir.AnchorMissing("the cases of HttpContent::is_end_stream (found %d)" % n)
        return True, "", [b.span]
    chk.ob(key, "the request body reports its end exactly when prefix and payload have both been handed over", f)


# ---- C11: the reader counts exactly the components the writer puts between prefix and extension -------------------------------------------------

def member_component_count(chk, P, key):
    def f():
        from . import fmtspec
        b = P.body("emit_file::is_file_in_set")
        try:
            fid = fmtspec.templates(P.body("emit_file::file_id"))[0][1]
            fnm = fmtspec.templates(P.body("emit_file::file_name"))[0][1]
        except (fmtspec.BadTemplate, IndexError, mir.AnchorMissing) as e:
            raise mir.AnchorMissing("the name templates of emit_file::file_name / file_id (%s)" % e)
        id_parts = 1 + sum(x[1].count(".") for x in fid if x[0] == "lit")
        holes = [x for x in fnm if x[0] != "lit"]
        # prefix . ts . id . ext : the components between prefix and extension are every hole but the first and last, the id counting id_parts
        want = (len(holes) - 2 - 1) + id_parts
        found = 0
        for rb in b.return_blocks():
            for path in b.acyclic_paths(0, rb, limit=500):
                r = mir.PathSummary(b, path).ret()
                if mir.o_const_value(r) is not None:
                    continue
                c = mir.norm_cmp(r, lambda o: o[0] == "call" and o[1].callee.get("name") in ("count", "len"))
                if c is None:
                    return False, "is_file_in_set answers with %s, not a comparison of the name's component count" % o_str(r)[:100], [], b.span
                op, l, rr = c
                k = mir.o_const_value(rr)
                found += 1
                if op != "Eq" or k != want:
                    return False, ("is_file_in_set accepts names whose middle part has `count %s %s` components; the set's own names have exactly %d (period, "
                                   "counter, id - read off the writer's templates): a sibling set whose prefix extends this one's by a dotted part "
                                   "(`app.web` next to `app`) would be listed, reused and deleted as this set's" % (op, k, want)), [], b.span
        if not found:
            raise mir.AnchorMissing("the component-count comparison of is_file_in_set")
        return True, "", [b.span]
    chk.ob(key, "a member's name has exactly as many dotted components between prefix and extension as the writer's templates produce", f)


# ---- C12: the gRPC status is looked for in the response headers as well as in the trailers -----------------------------------------------------

def grpc_status_in_headers_too(chk, P, key):
    """A gRPC server that fails a call without sending a message answers with a single header block that ends the stream ("Trailers-Only"): the
    `grpc-status` is then a *response header*, and no trailers follow.  A handler that starts from status 0 and only updates it from trailers counts
    such a rejection as an acknowledgement.  Structural part: the gRPC response handler of the OTLP transport looks `grpc-status` up in the response's
    headers (a keyed read on the response with that constant) besides matching it among the trailers."""
    def f():
        hosts = []
        for k, b in sorted(P.bodies.items()):
            if b.crate != "emit_otlp" or "OtlpTransportBuilder" not in k:
                continue
            consts = []
            for c in b.calls(normal_only=True):
                for a in c.args:
                    v = mir.o_const_value(b.origin(a, through_calls=("deref", "as_ref", "borrow")))
                    if v == "grpc-status":
                        consts.append(c)
            has_trailer_match = any(True for bb, t in b.switches() if False)
            if consts or "grpc-status" in str([st for bb, j, st in b.statements(normal_only=True)][:0]):
                hosts.append((b, consts))
        # the handler is the body that awaits stream_payload
        handlers = [b for k, b in sorted(P.bodies.items()) if b.crate == "emit_otlp" and "OtlpTransportBuilder" in k
                    and any(c.callee.get("name") == "stream_payload" for c in b.calls(normal_only=True))]
        if not handlers:
            raise mir.AnchorMissing("the gRPC response handler (the body that awaits HttpResponse::stream_payload)")
        ev = []
        for h in handlers:
            reads = []
            for c in h.calls(normal_only=True):
                if c.callee.get("name") in ("stream_payload",):
                    continue
                for a in c.args[1:]:
                    if mir.o_const_value(h.origin(a, through_calls=("deref", "as_ref", "borrow"))) == "grpc-status":
                        reads.append(c)
            if not reads:
                return False, ("%s takes the gRPC status from the trailers only (no read of `grpc-status` from the response's headers): a Trailers-Only response - "
                               "how servers report UNAVAILABLE, RESOURCE_EXHAUSTED, UNAUTHENTICATED .. - leaves the status at its initial 0, so the rejected "
                               "request counts as delivered and is never sent again" % h.key), [], h.span
            ev += [c.loc for c in reads]
        return True, "", ev
    chk.ob(key, "the gRPC response handler reads grpc-status from the response headers as well as from the trailers", f)


def every_handler_checks_http_status(chk, P, key):
    """Both response handlers of the OTLP transport - plain HTTP and gRPC - decide on the HTTP status before anything else counts as an acknowledgement:
    each reads `http_status()` and reaches `Ok` only on the 2xx side of a comparison of it.  A gRPC answer without a 2xx status comes from something
    in between (a proxy, a load balancer): it has no grpc-status at all, so a handler that only looks at that counts it as delivered."""
    def f():
        handlers = []
        for k, b in sorted(P.bodies.items()):
            if b.crate != "emit_otlp" or "OtlpTransportBuilder" not in k or "::build::" not in k:
                continue
            rets_ok = [1 for bb, j, st in b.statements(normal_only=True) if st["k"] == "assign" and st["rv"]["k"] == "agg" and st["rv"].get("variant") == "Ok"
                       and "p" not in st["place"] and st["place"]["l"] == 0]
            takes_res = any("HttpResponse" in (b.local_ty(i) or "") for i in range(1, b.argc + 1)) or \
                any("HttpResponse" in o_str(o) for o in [])
            uses_res = any(c.callee.get("name") in ("http_status", "stream_payload", "header") for c in b.calls(normal_only=True))
            if uses_res and rets_ok:
                handlers.append(b)
        if len(handlers) < 2:
            raise mir.AnchorMissing("the HTTP and gRPC response handlers of OtlpTransportBuilder::build (found %d)" % len(handlers))
        ev = []
        for h in handlers:
            hs = [c for c in h.calls(normal_only=True) if c.callee.get("name") == "http_status"]
            if not hs:
                return False, ("%s acknowledges a request without looking at the HTTP status of the response: an error answered by a proxy in front of the collector "
                               "(`:status: 500`, no grpc-status) counts as delivered and is never sent again" % h.key), [], h.span
            # every Ok return is on the in-range side of a comparison of that status
            oks = [bb for bb, j, st in h.statements(normal_only=True) if st["k"] == "assign" and st["rv"]["k"] == "agg" and st["rv"].get("variant") == "Ok"
                   and "p" not in st["place"] and st["place"]["l"] == 0]
            for ob in oks:
                guarded = False
                for g, vals, tgt in h.guards_of(ob):
                    so, pos = mir.norm_bool(h.switch_origin(g))
                    if "http_status" in o_str(so):
                        guarded = True
                if not guarded:
                    return False, "%s can acknowledge a request on a path that does not depend on the HTTP status" % h.key, [], h.span
            ev.append(hs[0].loc)
        return True, "", ev
    chk.ob(key, "every response handler of the OTLP transport acknowledges a request only on the 2xx side of a test of its HTTP status", f)


# ---- C17: every macro entry point that is given a level uses it ----------------------------------------------------------------------------------

def macro_level_used(chk, P, key):
    """`emit::info!`, `warn_evt!`, `debug_span!` .. differ from their level-less forms only in the `level` field of the options the proc-macro entry
    point receives.  Each `expand_*` function whose options carry a `level` hands that field on - to `push_evt_props` (which adds the `lvl` property) or
    to the span injection - on every path that produces tokens; dropping it yields events without a level, which the level filters then treat as the
    default level."""
    def f():
        ev, n = [], 0
        for k, b in sorted(P.bodies.items()):
            if b.crate != "emit_macros" or b.is_closure or "expand" not in k.split("::")[-1] or b.argc < 1:
                continue
            ty = mir._strip_lifetimes(b.local_ty(1) or "").split("<")[0]
            ad = P.adts.get(ty)
            flds = [f_["name"] for v in (ad or {}).get("variants", []) for f_ in v["fields"]] if ad else []
            if "level" not in flds:
                continue
            n += 1
            sites = set()
            for c in b.calls(normal_only=True):
                for a in c.args:
                    fp = mir.o_field_path(b.origin(a))
                    if fp[0][0] == "param" and fp[1][:1] == ["level"]:
                        sites.add(c.bb)
            if not sites:
                return False, ("%s never hands on the `level` of its options: the events / spans this macro form builds carry no `lvl` property, so "
                               "`emit::warn!` and `emit::debug!` are filtered alike" % k), [], b.span
            # every path that returns Ok passes one of the uses
            oks = [bb for bb, j, st in b.statements(normal_only=True) if st["k"] == "assign" and st["rv"]["k"] == "agg" and st["rv"].get("variant") == "Ok"
                   and "p" not in st["place"] and st["place"]["l"] == 0]
            for ob in oks:
                if not b.must_pass(sites, ends={ob}):
                    return False, "%s can produce its tokens on a path that never uses the `level` it was given" % k, [], b.span
            ev.append(b.span)
        if n < 4:
            raise mir.AnchorMissing("expand_* entry points with a `level` option (found %d)" % n)
        return True, "", ev
    chk.ob(key, "every macro entry point that is given a level hands it on (lvl property / span injection) on every token-producing path", f)


# ---- C11: a failed delete does not end retention ------------------------------------------------------------------------------------------------

def retention_not_ended_by_failure(chk, P, key):
    """`after every batch the set holds at most the configured maximum number of files`: the retention loop is left only because the listing is short
    enough (its length test) or empty (`pop()` gave None) - never because deleting one file failed.  A failed delete is counted and skipped; if it ended
    the loop, one undeletable oldest file would stop every later deletion and the set would grow by a file per roll."""
    def f():
        b = P.body("emit_file::ActiveFileSet::<'a>::apply_retention")
        heads = sorted({h for s_, h in b.back_edges()})
        if not heads:
            raise mir.AnchorMissing("the loop of apply_retention")
        rm = [c for c in b.calls(normal_only=True) if c.callee.get("name") == "remove_file"]
        if len(rm) != 1:
            raise mir.AnchorMissing("the remove_file call of apply_retention")
        body = b.loop_body(heads[0])
        ev = []
        for u in sorted(body):
            t = b.blocks[u]["term"]
            for v in b.succ(u):
                if v in body or b.blocks[v].get("cleanup"):
                    continue
                # an exit edge u -> v: every way out of the loop must not lie behind a decision on the outcome of remove_file
                doms = [g for g, vals, tgt in b.guards_of(u) if g in body] + ([u] if t["k"] == "switch" else [])
                for g in doms:
                    so = b.switch_origin(g)
                    x = so[1] if so[0] == "discr" else so
                    while x[0] in ("field", "downcast", "copy", "ref", "deref"):
                        x = x[1]
                    if x[0] == "call" and x[1].bb == rm[0].bb:
                        return False, ("apply_retention leaves its loop on an outcome of remove_file (branch at %s:%s): one file that cannot be deleted ends retention for "
                                       "good, so the set grows past its maximum" % (b.file, b.blocks[g]["term"].get("line"))), [], rm[0].loc
                ev.append("exit bb%d->bb%d" % (u, v))
        if not ev:
            raise mir.AnchorMissing("an exit of the retention loop")
        return True, "", ev
    chk.ob(key, "the retention loop is left only when the listing is short enough or empty, never because a delete failed", f)


# ---- C12: compression consumes the whole payload ------------------------------------------------------------------------------------------------

def gzip_consumes_payload(chk, P, key):
    """HttpContent::gzip feeds the encoded payload to the compressor chunk by chunk: its loop is left only on the *empty* chunk (the cursor is
    exhausted), and on the other edge the chunk is written in full (`write_all`) and the cursor advanced by its length.  With the test inverted the
    loop ends at the first chunk and an empty body is sent - which the collector acknowledges."""
    def f():
        bs = [b for k, b in P.bodies.items() if b.crate == "emit_otlp" and k.endswith("HttpContent::gzip") and not b.is_closure]
        if not bs:
            if P.config != "K1" or getattr(chk, "_overlay", None):
                return True, "", ["no gzip in this build"]
            raise mir.AnchorMissing("HttpContent::gzip")
        b = bs[0]
        heads = sorted({h for s_, h in b.back_edges()})
        if not heads:
            raise mir.AnchorMissing("the chunk loop of HttpContent::gzip")
        body = b.loop_body(heads[0])
        wa = [c for c in b.calls(normal_only=True) if c.callee.get("name") == "write_all" and c.bb in body]
        adv = [c for c in b.calls(normal_only=True) if c.callee.get("name") == "advance" and c.bb in body]
        if not wa or not adv:
            return False, "the chunk loop of HttpContent::gzip does not write_all and advance", [], b.span
        ok = False
        for bb, t in b.switches():
            if bb not in body:
                continue
            so, pos = mir.norm_bool(b.switch_origin(bb))
            c = mir.norm_cmp(so, lambda o: "len" in o_str(o) or "PtrMetadata" in o_str(o))
            empty_edge = None
            if c and mir.o_const_value(c[2]) == 0 and c[0] in ("Eq", "Ne"):
                for v, n in _edges(t):
                    holds = ((v != "0") == pos)
                    is_empty = holds if c[0] == "Eq" else not holds
                    if is_empty:
                        empty_edge = n
                    else:
                        nonempty_edge = n
            elif so[0] == "call" and so[1].callee.get("name") == "is_empty":
                for v, n in _edges(t):
                    if ((v != "0") == pos):
                        empty_edge = n
                    else:
                        nonempty_edge = n
            if empty_edge is None:
                continue
            ok = True
            if empty_edge in body and wa[0].bb in b.reachable_from(empty_edge, removed_blocks=tuple(heads)):
                return False, ("HttpContent::gzip writes on the *empty* chunk and leaves its loop on the first non-empty one: nothing of the payload is compressed and "
                               "an empty body is sent, which the collector acknowledges"), [], wa[0].loc
            if wa[0].bb not in b.reachable_from(nonempty_edge, removed_blocks=tuple(heads)):
                return False, "HttpContent::gzip does not write a non-empty chunk", [], wa[0].loc
        if not ok:
            raise mir.AnchorMissing("the emptiness test of the chunk loop in HttpContent::gzip")
        return True, "", [wa[0].loc, adv[0].loc]
    chk.ob(key, "compression feeds every chunk of the payload to the encoder and stops only at the empty chunk", f)


# ---- C12: the endpoint URL is base + path with exactly one `/` between them ---------------------------------------------------------------------

def url_join_one_separator(chk, P, key):
    """OtlpTransportBuilder::build joins the configured base URL and the signal's path: a `/` is inserted only when the base does not end with one *and*
    the path does not start with one.  Either test alone (`||`) yields `http://host:4318//v1/logs` for the documented configuration, which collectors
    answer with 404: every request fails, nothing is ever acknowledged."""
    def f():
        b = P.body("emit_otlp::client::OtlpTransportBuilder::build")
        pushes = [c for c in b.calls(normal_only=True) if c.callee.get("name") == "push" and "String" in (c.callee.get("full") or c.callee.get("path") or "")
                  and (mir.o_const_value(b.origin(c.args[1])) in ("/", 47) or "'/'" in o_str(b.origin(c.args[1])) or "char" in str(b.origin(c.args[1])))]
        if not pushes:
            raise mir.AnchorMissing("the separator push of OtlpTransportBuilder::build")
        for c in pushes:
            need = {"ends_with": False, "starts_with": False}
            for g, vals, tgt in b.guards_of(c.bb):
                so, pos = mir.norm_bool(b.switch_origin(g))
                if so[0] == "call" and so[1].callee.get("name") in need:
                    taken = ("0" not in [str(v) for v in vals]) == pos
                    if taken:
                        return False, "a separator is inserted although %s() holds" % so[1].callee.get("name"), [], c.loc
                    need[so[1].callee.get("name")] = True
            if not all(need.values()):
                return False, ("the `/` between base URL and path is inserted without both tests having failed (%s not established on every way to it): "
                               "`http://host:4318` + `/v1/logs` becomes `http://host:4318//v1/logs`" % [k_ for k_, v_ in need.items() if not v_]), [], c.loc
        return True, "", [c.loc for c in pushes]
    chk.ob(key, "base URL and path are joined with exactly one `/`", f)
