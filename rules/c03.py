"""C03 — ambient context is a per-thread stack; frames leave no trace once exited.

Decided: enter/exit pairing through the RAII guard on normal and unwind edges and around every poll;
who may call Ctxt::enter/exit directly; the thread-local implementation's enter and exit being the same
swap keyed by the context id; isolation by id (the id counter never hands out the shared id); storage
being thread-local; construction of root / pushed / disabled frames; forwarding Ctxt impls."""
import re

from . import common, mir
from .mir import o_str

CTXT = "emit_core::ctxt::Ctxt"
TLC = "emit::platform::thread_local_ctxt::ThreadLocalCtxt"
TL = "emit::platform::thread_local_ctxt::"
FRAME = "emit::frame::Frame::<C>::"


def self_fields(b, op, through=("deref", "deref_mut", "as_ref", "as_mut", "borrow", "borrow_mut")):
    o = b.origin(op, through_calls=through)
    r, names = mir.o_field_path(o)
    if r[0] == "param" and r[1] == 1:
        return names
    return None


def bracket_rules(chk, P, prefix):
    # ---- R3 -------------------------------------------------------------------------------------------------
    def bracket(key, user_pred, what):
        def f():
            b = P.body(key)
            ent = b.calls_to(path_re=r"^emit::frame::Frame::<C>::enter$")
            if len(ent) != 1:
                return False, "%s must obtain exactly one guard from Frame::enter (found %d)" % (what, len(ent)), [], b.span
            e = ent[0]
            users = [c for c in b.calls(normal_only=True) if user_pred(b, c)]
            if len(users) != 1:
                return False, "expected exactly one user call in %s, found %d" % (what, len(users)), [], b.span
            u = users[0]
            if not b.dominates(e.bb, u.bb):
                return False, "the frame is not entered before the user code runs", [], u.loc
            if "p" in e.dest:
                return False, "guard stored in a projection (idiom not recognised)", [], e.loc
            held, at_term, rel = b.held_region(e.dest["l"], e.bb, unwind=True)
            if u.bb not in at_term:
                return False, ("the guard returned by enter() is no longer held when the user code runs at %s (released: "
                               "%s): the frame is exited before, not after, the call" % (u.loc, rel)), [], u.loc
            # an explicit `drop(guard)` (a move into core::mem::drop) is a drop like the implicit one at scope end
            def is_drop(r):
                return r[1] == "drop" or "core::mem::drop" in str(r[1])
            bad = [r for r in rel if not is_drop(r)]
            if bad:
                return False, "the guard escapes instead of being dropped: %s" % bad, [], e.loc
            drops = {r[0] for r in rel if is_drop(r)}
            # normal successor and unwind successor of the user call both reach an exit only via a drop of the guard
            succ_n = u.term.get("t")
            succ_u = u.term.get("unwind")
            if succ_n is not None and not b.must_pass(drops, start=succ_n, ends=b.exit_blocks(unwind=True), unwind=True):
                return False, "a normal path from the user call to return does not drop the guard", [], u.loc
            if isinstance(succ_u, int):
                if not b.must_pass(drops, start=succ_u, ends=b.exit_blocks(unwind=True), unwind=True):
                    return False, ("when the user code panics the guard is not dropped on the unwind path: the frame "
                                   "stays active after the panic"), [], u.loc
            else:
                return False, "the user call has no cleanup edge (unwind action %s): a panic would skip the exit" % succ_u, [], u.loc
            # nothing exits the ctxt by hand here
            manual = b.calls_to(trait=CTXT, name="exit") + b.calls_to(trait=CTXT, name="enter")
            if manual:
                return False, "%s calls Ctxt::enter/exit by hand at %s" % (what, manual[0].loc), [], manual[0].loc
            return True, "", [e.loc, u.loc]
        return f

    def is_call_once(b, c):
        return c.callee.get("name") == "call_once" and mir.o_is_param(b.origin(c.args[0]), idx=2)

    def is_poll(b, c):
        return c.callee.get("name") == "poll" and c.callee.get("trait") == "core::future::future::Future"

    def is_guard_with(b, c):
        return (c.callee.get("path") or "").startswith("emit::frame::EnterGuard") and c.callee.get("name") == "with"

    chk.ob("%s.R3:Frame::call" % prefix, "the enter guard is held across the closure and dropped on return and on unwind",
           bracket(FRAME + "call", is_call_once, "Frame::call"))
    chk.ob("%s.R3:FrameFuture::poll" % prefix, "every poll enters the frame, holds the guard across the inner poll and drops it on return and on unwind",
           bracket("<emit::frame::FrameFuture<C, F> as core::future::future::Future>::poll", is_poll, "FrameFuture::poll"))
    chk.ob("%s.R3:Frame::with" % prefix, "the temporary guard outlives the with_current call",
           bracket(FRAME + "with", is_guard_with, "Frame::with"))



OVERLAYS = ('K2b',)


def open_disabled_rule(chk, P, prefix):
    def open_disabled():
        b = P.body("emit_core::ctxt::Ctxt::open_disabled")
        cs = b.calls_to(trait=CTXT, name="open_push")
        if len(cs) != 1 or b.count_on_paths({cs[0].bb}) != (1, 1):
            return False, "the default open_disabled must be open_push(Empty)", [], b.span
        a = b.origin(cs[0].args[1])
        ty = a[1].get("adt") if a[0] == "agg" else (a[1].get("ty") if a[0] == "const" else None)
        if not (ty or "").endswith("empty::Empty"):
            return False, "open_disabled pushes %s, not Empty" % o_str(a), [], cs[0].loc
        if [x for x in P.find(trait=CTXT, method="open_disabled", self_ty=TLC)]:
            return False, "ThreadLocalCtxt overrides open_disabled (rule needs re-reading)", [], None
        return True, "", [cs[0].loc]
    chk.ob("%s.R9:open_disabled" % prefix, "a disabled frame adds nothing: open_push(Empty)", open_disabled)


def ctxt_forwarding(chk, P, prefix, floor):
    """Every wrapper / erased-bridge impl of Ctxt forwards each frame operation to the same-named inner method."""
    n = 0
    for b in P.find(trait=CTXT):
        if b.is_closure or b.method not in ("enter", "exit", "close", "open_root", "open_push", "open_disabled", "with_current"):
            continue
        if common.is_wrapper_self(b.self_ty) and b.crate == "emit_core":
            n += 1
            cr = not (b.self_ty or "").startswith("(dyn")  # erased frames are re-wrapped
            chk.ob("%s.forward:%s" % (prefix, b.key), "forwarding Ctxt impl calls the same-named inner method exactly once",
                   lambda b=b, cr=cr: common.forward_check(b, check_return=cr), loc=b.span)
    for b in P.bodies.values():
        if b.trait and "DispatchCtxt" in b.trait and not b.is_closure:
            n += 1
            chk.ob("%s.forward:%s" % (prefix, b.key), "erased Ctxt bridge calls the same-named generic method exactly once",
                   lambda b=b: common.forward_check(b, check_return=False, check_params=False), loc=b.span)
    chk.floor("forwarding / erased Ctxt methods", n, floor)

    def wrappers_define_open_push():
        """Ctxt::open_push has a default (`open_root(props.and_props(current))`) that is only right for an implementor whose open_root keeps the
        *first* value of a repeated key.  ThreadLocalCtxt's does not (it inserts into a map, last wins) and overrides open_push instead - so a
        wrapper or bridge that leaves open_push to the default replaces the inner context's overlay by one in which the inherited value
        shadows the frame's own.  Every wrapping impl therefore defines open_push (and the forward rule above pins what it calls)."""
        bad, ev = [], []
        for i in P.impls:
            if i.get("trait") != CTXT:
                continue
            st = i.get("self_ty") or ""
            wraps = any(re.search(r": emit_core::ctxt::(alloc_support::)?(Ctxt|ErasedCtxt)", p) for p in i.get("predicates", ())) or st.startswith("(dyn") or common.is_wrapper_self(st)
            if not wraps:
                continue
            names = {it["name"] for it in i.get("items", ()) if it.get("kind") == "Fn"}
            if "open_push" not in names:
                bad.append((st, i.get("span")))
            else:
                ev.append(st)
        if bad:
            return False, ("`impl Ctxt for %s` leaves open_push to the trait default: through this wrapper a pushed frame is built as "
                           "open_root(own props, then inherited props), and an inner context that keeps the last value of a repeated key (ThreadLocalCtxt) "
                           "shows the inherited value instead of the frame's own" % bad[0][0]), [], bad[0][1]
        if len(ev) < 5:
            raise mir.AnchorMissing("wrapping impls of Ctxt (found %d)" % len(ev))
        return True, "", ev
    chk.ob("%s.forward:open_push-is-forwarded" % prefix, "every wrapping / bridging impl of Ctxt defines open_push (the default does not reproduce the inner overlay)",
           wrappers_define_open_push)



def option_ctxt_rules(chk, P, prefix):
    """`impl Ctxt for Option<C>` (a context that may be absent): each frame operation reaches the inner context's same-named operation once,
    and enter/exit hand the inner context a borrow *of the caller's frame* - not of a value moved out of it - because the inner exit writes
    the suspended properties back into that frame for the next entry (a future polled again, a frame entered twice)."""
    OPT = "core::option::Option<C>"
    VIEW = ("as_mut", "as_deref_mut", "as_ref", "as_deref", "deref", "deref_mut", "borrow", "borrow_mut")

    def inner_calls(b, name):
        return [(x, c) for x in [b] + P.closures_of(b) for c in x.calls(normal_only=True)
                if c.callee.get("name") == name and (c.callee.get("path") or "").startswith("emit_core::ctxt::Ctxt::")]

    def frame_op(name, by_ref):
        def f():
            b = P.impl_method(CTXT, OPT, name)
            cs = inner_calls(b, name)
            if len(cs) != 1:
                return False, "Option<C>::%s must call the inner %s at exactly one site, found %d" % (name, name, len(cs)), [], b.span
            x, c = cs[0]
            if x.in_cycle(c.bb):
                return False, "the inner %s sits in a loop" % name, [], c.loc
            o = x.origin(c.args[1])
            d = 0
            while d < 20:
                d += 1
                if o[0] in ("field", "downcast", "deref", "ref", "copy", "index"):
                    o = o[1]
                    continue
                if o[0] == "call" and o[1].callee.get("name") in VIEW and o[1].args:
                    o = x.origin(o[1].args[0])
                    continue
                break
            if common.root_param(P, x, o) != 2:
                return False, ("Option<C>::%s hands the inner context %s, not %s the caller's frame: what the inner context stores into it on exit "
                               "(the suspended properties) never reaches the caller, whose frame is left empty for its next entry"
                               % (name, o_str(x.origin(c.args[1])), "a borrow of" if by_ref else "")), [], c.loc
            return True, "", [c.loc]
        return f
    chk.ob("%s.option:enter" % prefix, "Option<C>::enter enters the caller's frame itself (a place inside the &mut parameter)", frame_op("enter", True))
    chk.ob("%s.option:exit" % prefix, "Option<C>::exit exits the caller's frame itself (a place inside the &mut parameter)", frame_op("exit", True))
    chk.ob("%s.option:close" % prefix, "Option<C>::close closes the caller's frame", frame_op("close", False))

    def open_op(name):
        def f():
            b = P.impl_method(CTXT, OPT, name)
            cs = inner_calls(b, name)
            if len(cs) != 1:
                return False, "Option<C>::%s must call the inner %s at exactly one site, found %d" % (name, name, len(cs)), [], b.span
            x, c = cs[0]
            if common.root_param(P, x, x.origin(c.args[1], through_calls=("by_ref", "borrow", "deref"))) != 2:
                return False, "the inner %s is given %s, not the caller's props" % (name, o_str(x.origin(c.args[1]))), [], c.loc
            r = x.origin(0)
            if not (r[0] == "call" and r[1].bb == c.bb) and not (x is b and ("callsite", c.bb) in common.roots(r)):
                return False, "the frame opened by the inner %s is not what is returned (%s)" % (name, o_str(r)), [], c.loc
            return True, "", [c.loc]
        return f
    for nm in ("open_root", "open_push", "open_disabled"):
        chk.ob("%s.option:%s" % (prefix, nm), "Option<C>::%s opens the inner frame over the caller's props and returns it" % nm, open_op(nm))


def thread_local_rules(chk, P, prefix):
    """R6-R10: the thread-local context implementation (swap involution, isolation by id, storage, construction of frames)."""
    # ---- R6: enter and exit are the same swap ------------------------------------------------------------------------
    def tlc_method(name):
        def f():
            b = P.impl_method(CTXT, TLC, name)
            cs = b.calls_to(path=TL + "swap")
            if len(cs) != 1 or b.count_on_paths({cs[0].bb}) != (1, 1):
                return False, "ThreadLocalCtxt::%s must call swap exactly once (found %d call sites)" % (name, len(cs)), [], b.span
            c = cs[0]
            if self_fields(b, c.args[0]) != ["id"]:
                return False, "swap is keyed by %s, not self.id" % o_str(b.origin(c.args[0])), [], c.loc
            if not mir.o_is_param(b.origin(c.args[1]), idx=2):
                return False, "swap is given %s, not the frame" % o_str(b.origin(c.args[1])), [], c.loc
            # ... and nothing else touches the frame: a frame is a snapshot taken when it was opened, so entering or leaving it must not write to it
            # (no props merged in from whatever is active now) - the swap is the only thing that may hold a mutable view of it
            for c2 in b.calls(normal_only=True):
                if c2.bb == c.bb:
                    continue
                for a in c2.args:
                    if common.has_root(b.origin(a, through_calls=("deref_mut", "as_mut", "make_mut", "get_mut", "borrow_mut")), "param", 2):
                        return False, ("ThreadLocalCtxt::%s also hands the frame to %s at %s: a frame carries the snapshot taken when it was opened; changing it on "
                                       "%s (merging in what is active now, dropping entries) makes its properties leak across scopes and threads"
                                       % (name, c2.callee.get("name"), c2.loc, name)), [], c2.loc
            for bb, j, st in b.statements(normal_only=True):
                if st["k"] == "assign" and st["place"].get("p") and st["place"]["l"] == 2:
                    return False, "ThreadLocalCtxt::%s writes into the frame at %s:%s" % (name, b.file, st.get("line")), [], "%s:%s" % (b.file, st.get("line"))
            return True, "", [c.loc]
        return f
    chk.ob("%s.R6:ThreadLocalCtxt::enter" % prefix, "enter swaps the frame with this context's slot", tlc_method("enter"))
    chk.ob("%s.R6:ThreadLocalCtxt::exit" % prefix, "exit is the same swap as enter (an involution applied in stack order restores the previous slot)", tlc_method("exit"))

    def with_local(fn):
        """closure passed to ACTIVE.with in `fn`"""
        b = P.body(TL + fn)
        ws = [c for c in b.calls(normal_only=True) if c.callee.get("name") == "with" and "LocalKey" in (c.callee.get("full") or "")]
        if len(ws) != 1:
            raise mir.AnchorMissing("%s does not use exactly one LocalKey::with" % fn)
        key = b.origin(ws[0].args[0])
        clo = b.origin(ws[0].args[1])
        if clo[0] != "agg" or clo[1].get("ak") != "closure":
            raise mir.AnchorMissing("LocalKey::with argument is not a closure literal")
        return b, ws[0], key, clo, P.body(clo[1]["def"])

    def swap_fn():
        b, w, key, clo, cb = with_local("swap")
        if not (key[0] == "const" and (key[1].get("def") or "").endswith("::ACTIVE")):
            return False, "swap uses %s, not the ACTIVE thread-local" % o_str(key), [], w.loc
        sw = cb.calls_to(path="core::mem::swap")
        rp = cb.calls_to(path="core::mem::replace")
        if not sw and len(rp) == 1 and cb.count_on_paths({rp[0].bb}) == (1, 1):
            # the same exchange spelt as `let old = mem::replace(slot, <incoming's value>); *incoming = old`
            ent = [c for c in cb.calls(normal_only=True) if c.callee.get("name") == "entry"]
            if len(ent) != 1 or ("callsite", ent[0].bb) not in common.roots(cb.origin(rp[0].args[0])):
                return False, "mem::replace does not write this context's map entry", [], rp[0].loc
            ko = cb.origin(ent[0].args[1])
            if not (ko[0] == "capture" and mir.o_is_param(P.capture_origin(cb, ko), idx=1)):
                return False, "the slot is looked up with key %s, not the id parameter" % o_str(ko), [], ent[0].loc
            par = P.body(cb.parent_key)
            if not any(l[0] == "param" and l[1] == par.key and l[2] == 2 for l in common.deep_roots(P, cb, cb.origin(rp[0].args[1]))):
                return False, "the value stored in the slot is %s, not the incoming frame's" % o_str(cb.origin(rp[0].args[1])), [], rp[0].loc
            back = False
            for bb, j, st in cb.statements(normal_only=True):
                if st["k"] == "assign" and st["place"].get("p") and st["place"]["l"] == 1 and st["rv"]["k"] == "use":
                    v = mir.o_root(cb.origin(st["rv"]["op"]))
                    tgt = cb._origin_place({"l": 1, "p": st["place"]["p"][:2]}, 0, (), set())
                    if v[0] == "call" and v[1].bb == rp[0].bb and tgt[0] == "capture" and mir.o_is_param(P.capture_origin(cb, tgt), idx=2):
                        back = True
            if not back:
                return False, "the slot's previous value (the result of mem::replace) is not handed back through the frame parameter", [], rp[0].loc
            return True, "", [ent[0].loc, rp[0].loc]
        if len(sw) != 1 or cb.count_on_paths({sw[0].bb}) != (1, 1):
            return False, "swap must exchange the slot and the frame with exactly one mem::swap", [], cb.span
        a = cb.origin(sw[0].args[0])
        i = cb.origin(sw[0].args[1])
        ra = common.roots(a)
        ent = [c for c in cb.calls(normal_only=True) if c.callee.get("name") == "entry"]
        if len(ent) != 1 or ("callsite", ent[0].bb) not in ra:
            return False, "the first operand of mem::swap is %s, not this context's map entry" % o_str(a), [], sw[0].loc
        # by provenance (what was captured), not by the captured variables' names: the second operand is the function's frame
        # parameter (#2), the key its id parameter (#1)
        if not (i[0] == "capture" and mir.o_is_param(P.capture_origin(cb, i), idx=2)):
            return False, "the second operand of mem::swap is %s, not the incoming frame (the function's second parameter)" % o_str(i), [], sw[0].loc
        ko = cb.origin(ent[0].args[1])
        if not (ko[0] == "capture" and mir.o_is_param(P.capture_origin(cb, ko), idx=1)):
            return False, "the slot is looked up with key %s, not the id parameter" % o_str(ko), [], ent[0].loc
        return True, "", [ent[0].loc, sw[0].loc]
    chk.ob("%s.R6:swap" % prefix, "swap exchanges the incoming frame with the map entry for the id, in the thread-local", swap_fn)

    # ---- R7 -----------------------------------------------------------------------------------------------------------
    def current_fn():
        b, w, key, clo, cb = with_local("current")
        if not (key[0] == "const" and (key[1].get("def") or "").endswith("::ACTIVE")):
            return False, "current uses %s, not the ACTIVE thread-local" % o_str(key), [], w.loc
        ent = [c for c in cb.calls(normal_only=True) if c.callee.get("name") == "entry"]
        if len(ent) != 1:
            return False, "expected one entry() lookup", [], cb.span
        ko = cb.origin(ent[0].args[1])
        if not (ko[0] == "capture" and mir.o_is_param(P.capture_origin(cb, ko), idx=1)):
            return False, "the slot is looked up with key %s, not the id parameter" % o_str(ko), [], ent[0].loc
        r = cb.origin(0)
        if not mir.o_is_call(r, name="clone"):
            return False, "current returns %s, not a clone (snapshot) of the slot" % o_str(r), [], cb.span
        if ("callsite", ent[0].bb) not in common.roots(r):
            return False, "the snapshot is not of this id's slot", [], cb.span
        return True, "", [ent[0].loc]
    chk.ob("%s.R7:current" % prefix, "current(id) snapshots (clones) the thread-local slot keyed by the id", current_fn)

    def default_is_fresh():
        bs = [b for b in P.bodies.values() if not b.is_closure and b.method == "default" and (b.self_ty or "") == TLC]
        if not bs:
            raise mir.AnchorMissing("Default for ThreadLocalCtxt")
        b = bs[0]
        cs = [c for c in b.calls(normal_only=True)]
        if len(cs) != 1 or not (cs[0].callee.get("path") or "").endswith("ThreadLocalCtxt::new"):
            return False, ("ThreadLocalCtxt::default() is %s, not ThreadLocalCtxt::new(): contexts made with Default (emit::setup() makes its "
                           "context that way) would share one thread-local slot with each other and with the shared context instead of "
                           "getting an id of their own" % [c.callee.get("path") for c in cs]), [], b.span
        return True, "", [cs[0].loc]
    chk.ob("%s.R7:default-is-fresh" % prefix, "a defaulted context is a new context with an id of its own (per-instance isolation)", default_is_fresh)

    def callers_pass_self_id():
        sites = []
        for b in P.by_crate["emit"]:
            for c in b.calls(normal_only=True):
                if c.callee.get("path") in (TL + "current", TL + "swap"):
                    if self_fields(b, c.args[0]) != ["id"]:
                        return False, "%s calls %s with key %s, not self.id" % (b.key, c.callee["path"], o_str(b.origin(c.args[0]))), [], c.loc
                    sites.append(c.loc)
        if not sites:
            raise mir.AnchorMissing("callers of thread_local_ctxt::current/swap")
        if len(sites) < 4:
            return False, "expected at least 4 callers of current/swap, found %d" % len(sites), [], None
        return True, "", sites
    chk.ob("%s.R7:callers" % prefix, "every caller of current/swap passes its own context id", callers_pass_self_id)

    def ids():
        # the counter is as wide as the id (usize): no narrower cell that wraps early and no widening cast on the way out
        cid = P.body(TL + "ctxt_id") if P.has_body(TL + "ctxt_id") else None
        if cid is not None:
            for bb, j, st in cid.statements(normal_only=True):
                if st["k"] == "assign" and st["rv"]["k"] == "cast" and st["rv"].get("from_ty") in ("u8", "u16", "u32", "i8", "i16", "i32") and st["rv"].get("ty") in ("usize", "u64"):
                    return False, ("ctxt_id() widens a %s counter to usize: the counter wraps after %s instances and hands out ids that are still in use "
                                   "(and the shared context's id 0)" % (st["rv"]["from_ty"], {"u8": "256", "u16": "65536", "u32": "2^32"}.get(st["rv"]["from_ty"], "few"))), \
                        [], "%s:%s" % (cid.file, st.get("line"))
            for stat in P.statics.values() if isinstance(P.statics, dict) else P.statics:
                nm = stat.get("path") or stat.get("key") or ""
                if nm.endswith("NEXT_CTXT_ID") and not re.search(r"usize|u64|AtomicUsize|AtomicU64", stat.get("ty") or ""):
                    return False, "the context id counter is a %s, narrower than the usize ids it hands out" % stat.get("ty"), [], stat.get("span")
        sh = P.body(TLC + "::shared")
        so = sh.origin(0)
        if so[0] != "agg":
            return False, "shared() returns %s" % o_str(so), [], sh.span
        shared_id = mir.o_const_value(dict(zip(so[1]["fields"], so[2]))["id"])
        if shared_id is None:
            return False, "shared()'s id is not a constant", [], sh.span
        nw = P.body(TLC + "::new")
        no = nw.origin(0)
        idsrc = dict(zip(no[1]["fields"], no[2]))["id"] if no[0] == "agg" else None
        if not (idsrc and mir.o_is_call(idsrc, path=TL + "ctxt_id")):
            return False, "new() takes its id from %s, not ctxt_id()" % (o_str(idsrc) if idsrc else o_str(no)), [], nw.span
        g = P.body(TL + "ctxt_id")
        # the counter: a static with a constant initial value
        statics = set()
        for bb, j, s in g.statements(normal_only=True):
            if s["k"] == "assign":
                for o in g.rvalue_operands(s["rv"]):
                    if isinstance(o.get("k"), dict) and isinstance(o["k"].get("v"), dict) and "static" in o["k"]["v"]:
                        statics.add(o["k"]["v"]["static"])
        if len(statics) != 1:
            return False, "ctxt_id() must draw from exactly one static counter (found %s)" % sorted(statics), [], g.span
        st = P.body(statics.pop())
        init = st.origin(0)
        if not (init[0] == "call" and init[1].callee.get("name") == "new" and init[1].args):
            return False, "counter initialiser %s not recognised" % o_str(init), [], st.span
        init_v = mir.o_const_value(st.origin(init[1].args[0]))
        if init_v is None:
            return False, "counter's initial value is not a constant", [], st.span
        # what ctxt_id returns relative to the stored value: the value read before the increment (+k)
        r = g.origin(0)
        first = None
        if r[0] in ("field", "call", "local", "param") or r[0] == "cast":
            # a plain load through a guard deref, or fetch_add's result (previous value)
            if r[0] == "call" and r[1].callee.get("name") not in ("deref", "deref_mut", "fetch_add", "load", "get", "replace"):
                first = None
            else:
                first = init_v
        if r[0] == "binop" and r[1] in ("Add", "AddWithOverflow", "AddUnchecked"):
            k = mir.o_const_value(r[3])
            if k is not None:
                first = init_v + k
        if r[0] == "call" and r[1].callee.get("name") in ("wrapping_add", "checked_add", "saturating_add"):
            k = mir.o_const_value(g.origin(r[1].args[1]))
            if k is not None:
                first = init_v + k
        if first is None:
            return False, "how ctxt_id() derives the id from the counter is not recognised (%s)" % o_str(r), [], g.span
        if first == shared_id:
            return False, ("the first id ctxt_id() hands out is %d, the same as the id of ThreadLocalCtxt::shared(): the "
                           "first isolated context would share storage with the shared one" % first), [], g.span
        if first < shared_id:
            return False, "ids start at %d below the shared id %d and will reach it" % (first, shared_id), [], g.span
        # the increment must be a +1 step (ids are distinct until wrap-around)
        incs = [c for c in g.calls(normal_only=True) if c.callee.get("name") in ("wrapping_add", "fetch_add", "checked_add")]
        if len(incs) != 1:
            return False, "expected exactly one increment of the counter", [], g.span
        step = mir.o_const_value(g.origin(incs[0].args[1]))
        if step != 1:
            return False, "counter step is %s" % step, [], incs[0].loc
        return True, "first isolated id %d != shared id %d" % (first, shared_id), [g.span, st.span]
    chk.ob("%s.R7:ids" % prefix, "isolated contexts never receive the shared context's id (counter start vs shared constant)", ids)

    # ---- R8 ---------------------------------------------------------------------------------------------------------
    def tls():
        c = P.consts.get(TL + "ACTIVE")
        if c is None:
            raise mir.AnchorMissing("thread_local ACTIVE")
        if not c["ty"].startswith("std::thread::local::LocalKey<"):
            return False, "ACTIVE is a %s, not thread-local storage" % c["ty"], [], None
        t = P.consts.get("emit_traceparent::ACTIVE_TRACEPARENT")
        if t is None or not t["ty"].startswith("std::thread::local::LocalKey<"):
            return False, "emit_traceparent::ACTIVE_TRACEPARENT is not thread-local storage", [], None
        # other process-wide mutable statics used by the ctxt module
        bad = []
        for path, s in P.statics.items():
            if path.startswith(TL) and not s.get("thread_local"):
                if re.search(r"Mutex|RwLock|RefCell|Cell<|Atomic|OnceLock|OnceCell", s["ty"]) and not path.endswith("NEXT_CTXT_ID"):
                    bad.append(path)
        if bad:
            return False, "process-wide mutable state in the thread-local ctxt module: %s" % bad, [], None
        return True, "", [TL + "ACTIVE", "emit_traceparent::ACTIVE_TRACEPARENT"]
    chk.ob("%s.R8:thread-local" % prefix, "the active-frame storage is thread_local!; the only process-wide state is the id counter", tls)

    # ---- R9 ---------------------------------------------------------------------------------------------------------------
    def open_root():
        b = P.impl_method(CTXT, TLC, "open_root")
        bodies = [b] + P.closures_of(b)
        for x in bodies:
            if x.calls_to(path=TL + "current") or x.calls_to(path=TL + "swap"):
                return False, "open_root reads the current ambient state: a root frame must show only its own properties", [], x.span
        fe = b.calls_to(trait="emit_core::props::Props", name="for_each")
        if len(fe) != 1 or not mir.o_is_param(b.origin(fe[0].args[0]), idx=2):
            return False, "open_root must enumerate the given props once", [], b.span
        return True, "", [fe[0].loc]
    chk.ob("%s.R9:open_root" % prefix, "a root frame is built only from its own properties", open_root)

    def open_push():
        b = P.impl_method(CTXT, TLC, "open_push")
        cur = b.calls_to(path=TL + "current")
        if len(cur) != 1 or self_fields(b, cur[0].args[0]) != ["id"]:
            return False, "open_push must start from current(self.id)", [], b.span
        r = b.origin(0)
        if not (r[0] == "call" and r[1].bb == cur[0].bb) and not (r[0] == "local"):
            # `span` is mutated in place; its whole-definition is the current() call
            pass
        ds = [d for d in b.defs().get(b.origin(0)[1] if b.origin(0)[0] == "local" else -1, ())]
        fe = b.calls_to(trait="emit_core::props::Props", name="for_each")
        if len(fe) != 1 or not mir.o_is_param(b.origin(fe[0].args[0]), idx=2):
            return False, "open_push must enumerate the pushed props once", [], b.span
        clo = b.origin(fe[0].args[1])
        if clo[0] != "agg":
            return False, "visitor not a closure", [], fe[0].loc
        cb = P.body(clo[1]["def"])
        ins = [c for c in cb.calls(normal_only=True) if c.callee.get("name") == "insert" and "HashMap" in (c.callee.get("full") or "")]
        if len(ins) != 1:
            return False, ("pushed properties must be written with HashMap::insert (pushed overrides ambient); found calls %s"
                           % [c.callee.get("name") for c in cb.calls(normal_only=True)]), [], cb.span
        if not common.has_root(cb.origin(ins[0].args[1]), "param", 2) or not common.has_root(cb.origin(ins[0].args[2]), "param", 3):
            return False, "insert is not (visited key, visited value)", [], ins[0].loc
        if cb.count_on_paths({ins[0].bb}) != (1, 1):
            return False, ("open_push writes a pushed property only on some paths (a filter on the key or value at %s): a property the frame "
                           "was given - e.g. a null that is meant to blank out an ambient value - would not be part of the frame"
                           % ins[0].loc), [], ins[0].loc
        # sibling agreement: root and push frames buffer a visited property by the same steps
        rb_ = P.impl_method(CTXT, TLC, "open_root")
        rfe = rb_.calls_to(trait="emit_core::props::Props", name="for_each")
        if len(rfe) == 1 and rb_.origin(rfe[0].args[1])[0] == "agg":
            rcb = P.body(rb_.origin(rfe[0].args[1])[1]["def"])
            seq_a = [c.callee.get("name") for c in cb.calls(normal_only=True)]
            seq_b = [c.callee.get("name") for c in rcb.calls(normal_only=True)]
            if sorted(map(str, seq_a)) != sorted(map(str, seq_b)) or len(list(cb.switches())) != len(list(rcb.switches())):
                return False, "open_root and open_push buffer a visited property by different steps (%s vs %s)" % (seq_b, seq_a), [], cb.span
        mm = [c for c in b.calls(normal_only=True) if c.callee.get("name") == "make_mut"]
        if len(mm) != 1:
            return False, "the snapshot must be made unique with Arc::make_mut before it is written (copy-on-write)", [], b.span
        return True, "", [cur[0].loc, ins[0].loc, mm[0].loc]
    chk.ob("%s.R9:open_push" % prefix, "a pushed frame is the current snapshot (copy-on-write) overlaid by the pushed properties", open_push)

    open_disabled_rule(chk, P, "C03")

    def with_current():
        b = P.impl_method(CTXT, TLC, "with_current")
        cur = b.calls_to(path=TL + "current")
        if len(cur) != 1 or self_fields(b, cur[0].args[0]) != ["id"]:
            return False, "with_current must read current(self.id)", [], b.span
        us = [c for c in b.calls(normal_only=True) if c.callee.get("name") == "call_once"]
        if len(us) != 1 or b.count_on_paths({us[0].bb}) != (1, 1):
            return False, "with_current must call the callback exactly once", [], b.span
        if not common.has_root(b.origin(us[0].args[1]), "callsite", cur[0].bb):
            return False, "the callback is shown %s, not the current snapshot" % o_str(b.origin(us[0].args[1])), [], us[0].loc
        return True, "", [cur[0].loc, us[0].loc]
    chk.ob("%s.R9:with_current" % prefix, "with_current shows the callback a snapshot of this context's slot", with_current)

    # ---- R10 ---------------------------------------------------------------------------------------------------------------
    def frame_adt():
        a = P.adt(TL + "ThreadLocalCtxtFrame")
        tys = [f["ty"] for v in a["variants"] for f in v["fields"]]
        for t in tys:
            if re.search(r"RefCell|Cell<|Mutex|RwLock|Atomic", t):
                return False, "ThreadLocalCtxtFrame has interior mutability: %s" % t, [], a["span"]
            if "HashMap" in t and "Arc<" not in t:
                return False, "frame props are not behind Arc (snapshot semantics): %s" % t, [], a["span"]
        return True, "", tys
    chk.ob("%s.R10:ThreadLocalCtxtFrame" % prefix, "a frame is an immutable shared snapshot (Arc, no interior mutability): moving it carries its properties", frame_adt)


    def frame_yields_entries():
        """The frame's enumeration hands every buffered pair to the visitor: inside the loop over the map the visitor is called once per entry
        (with the entry's key and value), and its answer is propagated."""
        bs = [b for b in P.find(trait="emit_core::props::Props", method="for_each") if not b.is_closure and (b.self_ty or "").endswith("ThreadLocalCtxtFrame")]
        if not bs:
            raise mir.AnchorMissing("impl Props for ThreadLocalCtxtFrame")
        b = bs[0]
        vis = [c for c in b.calls(normal_only=True) if c.callee.get("name") in ("call_mut", "call") and b.in_cycle(c.bb) and mir.o_is_param(mir.o_root(b.origin(c.args[0])), idx=2)]
        nx = [c for c in b.calls(normal_only=True) if c.callee.get("name") == "next" and b.in_cycle(c.bb)]
        if len(vis) != 1 or len(nx) != 1:
            return False, ("the frame's for_each calls its visitor %d times inside its loop over the buffered pairs (expected once per entry): the ambient "
                           "properties would not be enumerated" % len(vis)), [], b.span
        if not any(r[0] == "callsite" and r[1] == nx[0].bb for r in common.roots(b.origin(vis[0].args[1]))):
            return False, "the visitor is not given the entry the loop just took", [], vis[0].loc
        return True, "", [vis[0].loc]
    chk.ob("%s.R10:frame-yields-entries" % prefix, "the frame enumerates every buffered pair", frame_yields_entries)

    def push_unwrap_guarded():
        """open_push never unwraps an empty snapshot: if it unwraps `span.props`, the None case has been replaced by a fresh map on every path to
        the unwrap (the first push on a thread starts from None)."""
        b = P.impl_method(CTXT, TLC, "open_push")
        uw = [c for c in b.calls(normal_only=True) if c.callee.get("name") in ("unwrap", "expect") and
              mir.o_field_path(b.origin(c.args[0], through_calls=("as_mut", "as_ref", "as_deref_mut")))[1][-1:] == ["props"]]
        if not uw:
            return True, "", ["open_push does not unwrap the snapshot"]
        stores = [bb for bb, j2, st in b.statements(normal_only=True) if st["k"] == "assign" and st["place"].get("p") and
                  [p.get("n") for p in st["place"]["p"] if isinstance(p, dict) and "n" in p][-1:] == ["props"]]
        tests = [(sbb, t2) for sbb, t2 in b.switches() if (lambda so: so[0] == "call" and so[1].callee.get("name") in ("is_none", "is_some"))(mir.norm_bool(b.switch_origin(sbb))[0])]
        if not tests or not stores:
            return False, ("open_push unwraps span.props at %s without first replacing None by a map: the first push on a thread (or after an empty "
                           "snapshot) panics" % uw[0].loc), [], uw[0].loc
        sbb, t2 = tests[0]
        so, pos = mir.norm_bool(b.switch_origin(sbb))
        none_edge_true = (so[1].callee.get("name") == "is_none") == pos
        none_targets = [nb for v, nb in ([(v, nb) for v, nb in t2["targets"]] + [("otherwise", t2["otherwise"])]) if (str(v) != "0") == none_edge_true]
        for nt in none_targets:
            if uw[0].bb in b.reachable_from(nt, removed_blocks=set(stores)):
                return False, "on the None edge open_push can reach the unwrap at %s without storing a map" % uw[0].loc, [], uw[0].loc
        return True, "", [uw[0].loc]
    chk.ob("%s.R9:open_push-unwrap-guarded" % prefix, "open_push replaces an empty snapshot by a map before unwrapping it", push_unwrap_guarded)


    def who_touches_active():
        """The thread-local map of active frames is reached only through `current` (snapshot) and `swap` (exchange): anything else that
        touches it - clearing, removing or editing an entry - breaks the pairing of enter and exit the swap rule relies on."""
        users = set()
        for k, b in P.bodies.items():
            if b.crate != "emit" or "thread_local_ctxt" not in b.file or "::tests::" in k:
                continue
            for c in b.calls(normal_only=True):
                for a in c.args:
                    o = b.origin(a)
                    if o[0] == "const" and str(o[1].get("def", "")).endswith("::ACTIVE"):
                        users.add(k.split("::{closure")[0])
        ok = {TL + "current", TL + "swap"}
        if not users:
            raise mir.AnchorMissing("users of the ACTIVE thread-local")
        extra = sorted(users - ok)
        if extra:
            return False, "%s accesses the thread-local map of active frames directly (only current() and swap() may)" % extra[0], [], None
        return True, "", sorted(users)
    chk.ob("%s.R8:who-touches-active" % prefix, "only current() and swap() reach the thread-local map of active frames", who_touches_active)

    def active_keyed_by_own_id():
        """The per-thread map is shared by every ThreadLocalCtxt instance on the thread, one entry per instance id.  Whatever current() and swap()
        do to the map through a mutable borrow is therefore addressed by *their own* id: a map-wide mutation (clear, retain, drain ...) or one
        keyed by something else edits another instance's active frame."""
        ev = []
        for fn in ("swap", "current"):
            b = P.body(TL + fn)
            for x in P.closures_of(b):
                for c in x.calls(normal_only=True):
                    full = c.callee.get("full") or ""
                    if not re.match(r"std::collections::hash::map::HashMap::<usize, [\w:]*ThreadLocalCtxtFrame[^>]*>::\w+", full):
                        continue
                    a0 = c.args[0]
                    ty = x.local_ty(a0.get("m", a0.get("c", {})).get("l")) if isinstance(a0, dict) else ""
                    if not (ty or "").startswith("&mut") and (ty or "").startswith("&"):
                        continue
                    key = None
                    if len(c.args) >= 2:
                        o = x.origin(c.args[1])
                        while o[0] in ("ref", "deref", "copy"):
                            o = o[1]
                        key = common.root_param(P, x, o)
                    if key != 1:
                        return False, ("%s calls `%s` on the thread's map of active frames %s: the map holds every context instance's frame, and only this "
                                       "instance's own entry (key = its id) may be changed" %
                                       (fn, c.callee.get("name"), "with key %s" % o_str(x.origin(c.args[1])) if len(c.args) >= 2 else "without a key")), [], c.loc
                    ev.append(c.loc)
        if len(ev) < 2:
            raise mir.AnchorMissing("keyed accesses of the ACTIVE map in swap/current (found %d)" % len(ev))
        return True, "", ev
    chk.ob("%s.R8:active-keyed-by-own-id" % prefix, "current() and swap() change the shared per-thread map only at their own id", active_keyed_by_own_id)


def run(chk):
    P = mir.Program("K1")
    chk.use_program(P)
    chk.explain("Rules over built MIR (pre-borrowck: scope drops on normal and unwind edges are explicit): R1/R2 "
                "Frame::enter / EnterGuard::drop call Ctxt::enter / Ctxt::exit exactly once on the same two fields; R3 "
                "the guard returned by enter is held across the user call in Frame::call, Frame::with and "
                "FrameFuture::poll and dropped on the normal and the unwind successor; R4 Ctxt::enter/exit are called "
                "directly only by forwarding Ctxt impls, Frame::enter and EnterGuard::drop; R5 Frame::drop closes once, "
                "into_parts forgets; R6 ThreadLocalCtxt::enter and ::exit are the same swap(self.id, frame) and swap "
                "is mem::swap with the map entry; R7 isolation by id: entry keyed by the id parameter, callers pass "
                "self.id, the first id handed out differs from the shared id; R8 the storage is thread_local!; R9 "
                "root/push/disabled construction; R10 frame snapshot is immutable shared data; forwarding Ctxt impls.")
    chk.trust("rustc nightly MIR construction incl. unwind edges; thread_local!, RefCell, HashMap::entry/insert, mem::swap, Arc::make_mut contracts")
    chk.assume("user code enters and exits frames in stack order (the property's premise)")
    chk.exhaustive = True

    # ---- R1 -------------------------------------------------------------------------------------------------
    def r1():
        b = P.body(FRAME + "enter")
        cs = b.calls_to(trait=CTXT, name="enter")
        if len(cs) != 1 or b.count_on_paths({cs[0].bb}) != (1, 1):
            return False, "Frame::enter must call Ctxt::enter exactly once on every path", [], b.span
        c = cs[0]
        if self_fields(b, c.args[0]) != ["ctxt"] or self_fields(b, c.args[1]) != ["scope"]:
            return False, "Ctxt::enter is called with (%s, %s), expected (self.ctxt, &mut self.scope)" % (
                o_str(b.origin(c.args[0])), o_str(b.origin(c.args[1]))), [], c.loc
        r = b.origin(0)
        if not (r[0] == "agg" and (r[1].get("adt") or "").endswith("EnterGuard")):
            return False, "Frame::enter returns %s, not an EnterGuard" % o_str(r), [], b.span
        f = dict(zip(r[1]["fields"], r[2]))
        if not mir.o_is_param(f["scope"], idx=1):
            return False, "the guard protects %s, not this frame" % o_str(f["scope"]), [], b.span
        return True, "", [c.loc]
    chk.ob("C03.R1:Frame::enter", "Frame::enter activates its own scope on its own ctxt exactly once and returns a guard over itself", r1)

    # ---- R2 -------------------------------------------------------------------------------------------------
    def r2():
        b = P.body("<emit::frame::EnterGuard<'a, C> as core::ops::drop::Drop>::drop")
        cs = b.calls_to(trait=CTXT, name="exit")
        if len(cs) != 1 or b.count_on_paths({cs[0].bb}) != (1, 1):
            return False, "EnterGuard::drop must call Ctxt::exit exactly once on every path (found %d sites)" % len(cs), [], b.span
        c = cs[0]
        if self_fields(b, c.args[0]) != ["scope", "ctxt"] or self_fields(b, c.args[1]) != ["scope", "scope"]:
            return False, "Ctxt::exit is called with (%s, %s), expected the guarded frame's (ctxt, scope)" % (
                o_str(b.origin(c.args[0])), o_str(b.origin(c.args[1]))), [], c.loc
        if b.calls_to(trait=CTXT, name="enter"):
            return False, "EnterGuard::drop re-enters", [], b.span
        return True, "", [c.loc]
    chk.ob("C03.R2:EnterGuard::drop", "dropping the guard exits the same scope on the same ctxt exactly once", r2)

    bracket_rules(chk, P, "C03")

    def guard_with():
        b = P.body("emit::frame::EnterGuard::<'a, C>::with")
        cs = b.calls_to(trait=CTXT, name="with_current")
        if len(cs) != 1 or self_fields(b, cs[0].args[0]) != ["scope", "ctxt"] or not mir.o_is_param(b.origin(cs[0].args[1]), idx=2):
            return False, "EnterGuard::with must be `self.scope.ctxt.with_current(with)`", [], b.span
        return True, "", [cs[0].loc]
    chk.ob("C03.R3:EnterGuard::with", "EnterGuard::with reads the current props of the guarded frame's ctxt", guard_with)

    def in_fn():
        b = P.body(FRAME + "in_fn")
        clos = P.closures_of(b)
        if len(clos) != 1:
            return False, "expected one closure in in_fn", [], b.span
        cb = clos[0]
        cs = cb.calls_to(path_re=r"^emit::frame::Frame::<C>::call$")
        if len(cs) != 1 or cb.count_on_paths({cs[0].bb}) != (1, 1):
            return False, "in_fn's closure must run the scope through Frame::call exactly once", [], cb.span
        if not common.has_root(cb.origin(cs[0].args[0]), "capture", "self") or not common.has_root(cb.origin(cs[0].args[1]), "capture", "scope"):
            return False, "in_fn does not call self.call(scope)", [], cs[0].loc
        return True, "", [cs[0].loc]
    chk.ob("C03.R3:Frame::in_fn", "in_fn defers to Frame::call (so the same bracket applies)", in_fn)

    def in_future():
        b = P.body(FRAME + "in_future")
        r = b.origin(0)
        if not (r[0] == "agg" and (r[1].get("adt") or "").endswith("FrameFuture")):
            return False, "in_future returns %s" % o_str(r), [], b.span
        f = dict(zip(r[1]["fields"], r[2]))
        if not mir.o_is_param(f["frame"], idx=1) or not mir.o_is_param(f["future"], idx=2):
            return False, "FrameFuture is not built from (self, future)", [], b.span
        return True, "", [b.span]
    chk.ob("C03.R3:Frame::in_future", "in_future wraps this frame and the future in a FrameFuture", in_future)

    # ---- R4: who may call Ctxt::enter / Ctxt::exit ------------------------------------------------------------
    def r4():
        sites = []
        bad = []
        for b in P.bodies.values():
            if b.crate not in ("emit", "emit_core", "emit_traceparent", "emit_otlp", "emit_file", "emit_term", "emit_batcher"):
                continue
            for c in b.calls(normal_only=True):
                if c.callee.get("name") in ("enter", "exit", "dispatch_enter", "dispatch_exit") and (
                        c.callee.get("trait") == CTXT or "DispatchCtxt" in (c.callee.get("trait") or "")):
                    nm = common.norm_method(c.callee["name"])
                    root = P.bodies.get(b.root_key) if b.root_key else b
                    ok = False
                    if root is not None and (root.trait == CTXT or "DispatchCtxt" in (root.trait or "")) and common.norm_method(root.method) == nm:
                        ok = True  # a Ctxt impl forwarding its own enter/exit
                    if mir._strip_lifetimes(b.key) == FRAME + "enter" and nm == "enter":
                        ok = True
                    if b.key.startswith("<emit::frame::EnterGuard<") and b.method == "drop" and nm == "exit":
                        ok = True
                    sites.append(c.loc)
                    if not ok:
                        bad.append((b.key, c))
        if bad:
            k, c = bad[0]
            return False, ("%s calls Ctxt::%s directly at %s: outside Ctxt impls only Frame::enter (enter) and "
                           "EnterGuard::drop (exit) may, so that every exit is tied to a guard's drop (also on unwind)"
                           % (k, c.callee["name"], c.loc)), [], c.loc
        return True, "", sites
    chk.ob("C03.R4:who-may-enter-exit", "Ctxt::enter/exit are called directly only by forwarding Ctxt impls, Frame::enter and EnterGuard::drop", r4)

    # ---- R5 ------------------------------------------------------------------------------------------------------
    def r5():
        b = P.body("<emit::frame::Frame<C> as core::ops::drop::Drop>::drop")
        cs = b.calls_to(trait=CTXT, name="close")
        if len(cs) != 1 or b.count_on_paths({cs[0].bb}) != (1, 1):
            return False, "Frame::drop must close its scope exactly once", [], b.span
        c = cs[0]
        a0 = b.origin(c.args[0], through_calls=("take", "deref", "deref_mut"))
        a1 = b.origin(c.args[1], through_calls=("take", "deref", "deref_mut"))
        if mir.o_field_path(a0)[1] != ["ctxt"] or mir.o_field_path(a1)[1] != ["scope"]:
            return False, "close is called with (%s, %s)" % (o_str(a0), o_str(a1)), [], c.loc
        return True, "", [c.loc]
    chk.ob("C03.R5:Frame::drop", "dropping a frame closes its own scope on its own ctxt exactly once", r5)

    def into_parts():
        b = P.body(FRAME + "into_parts")
        fg = b.calls_to(path="core::mem::forget")
        if len(fg) != 1 or b.count_on_paths({fg[0].bb}) != (1, 1) or not mir.o_is_param(b.origin(fg[0].args[0]), idx=1):
            return False, "into_parts must forget self (otherwise Drop closes a scope that was handed out)", [], b.span
        return True, "", [fg[0].loc]
    chk.ob("C03.R5:Frame::into_parts", "into_parts moves the parts out and forgets the frame", into_parts)

    thread_local_rules(chk, P, "C03")

    ctxt_forwarding(chk, P, "C03", 28)
    option_ctxt_rules(chk, P, "C03")

    common.arg_agreement_rule(chk, P, "C03", [("emit", "src/frame.rs"), ("emit", "src/platform/thread_local_ctxt.rs"),
                                               ("emit_core", "src/ctxt.rs")], 3)
    from . import witness
    witness.witness_rule(chk, "C03", 6)
    if not getattr(chk, "_overlay", None):
        common.linear_types_rule(chk, P, "C03.R5:frames-are-linear", "a frame and its enter guard cannot be copied (a copy would exit / close the scope twice)",
                                 {"emit::frame::Frame": "each copy closes its scope on drop and can be entered independently: exits no longer pair with enters",
                                  "emit::frame::EnterGuard": "each copy exits on drop: the frame would be exited twice for one enter"})
    common.wrapper_family_rule(chk, P, "C03", CTXT, 6, forward=False, allow={
        ("emit_core::runtime::AssertInternal<", "open_disabled"): "the default composes the forwarded open_push with Empty, which is what the inner default does too"})
    return chk
