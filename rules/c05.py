"""C05 — each enabled, started span completes exactly once; disabled spans never do.

A typestate property over SpanGuard{state, data, completion}.  Decided: where Completion::complete may
be called and under which match; Drop/complete route through the one completion site; `start` only
moves Initial->Started and otherwise restores; every construction of a SpanGuard takes its
`completion` from the previous guard (monotone enablement) or, in `new`, from the filter result;
builders take all three fields; Timer reads; the panic arm of the default completion; the level
plumbing of the macro completion hooks."""
import re

from . import common, mir
from .mir import o_str

COMPLETION = "emit::span::completion::Completion"
CLOCK = "emit_core::clock::Clock"
FILTER = "emit_core::filter::Filter"
GUARD = "emit::span::SpanGuard"
GP = "emit::span::SpanGuard::<'a, T, P, F>::"


def strip_option_chain(body, o, names=("map", "take", "and", "and_then", "filter", "or", "inspect")):
    """Follow `x.take().map(..)`-style chains to their receiver root."""
    seen = 0
    while o[0] == "call" and o[1].callee.get("name") in names and o[1].args and seen < 10:
        o = body.origin(o[1].args[0])
        seen += 1
    return o


def self_field(o):
    r, names = mir.o_field_path(o)
    if r[0] == "param" and r[1] == 1:
        return names
    return None


OVERLAYS = ("K2b",)


def completion_rules(chk, P, prefix):
    """R1: who may complete a span, and under which taken fields (shared with C18: a disabled span never completes)."""
    adt = P.adt("emit::span::SpanGuardState")
    variants = [v["name"] for v in adt["variants"]]

    # ---------------- R1 --------------------------------------------------------------------------------
    guard_bodies = [b for b in P.bodies.values() if b.key.startswith("emit::span::SpanGuard::<") or
                    (b.self_ty or "").startswith("emit::span::SpanGuard<")]
    chk.floor("SpanGuard method bodies (incl. closures, Drop)", len(guard_bodies), 16)

    def r1_who():
        sites = []
        for b in guard_bodies:
            for c in b.calls_to(trait=COMPLETION, name="complete"):
                sites.append((b, c))
        owners = sorted({(b.root_key or b.key) for b, c in sites})
        want = sorted([GP + "complete_default", GP + "complete_with"])
        if [mir._strip_lifetimes(x) for x in owners] != [mir._strip_lifetimes(x) for x in want]:
            return False, "Completion::complete is called from %s; only complete_default and complete_with may complete a span" % owners, [], (sites[0][1].loc if sites else None)
        return True, "", [c.loc for b, c in sites]
    chk.ob("%s.R1:who-may-complete" % prefix, "within SpanGuard, Completion::complete is called only by complete_default and complete_with", r1_who)

    def completion_site(method, recv_is_param):
        def f():
            b = P.body(GP + method)
            cs = b.calls_to(trait=COMPLETION, name="complete")
            if len(cs) != 1:
                return False, "expected exactly one Completion::complete call in %s, found %d" % (method, len(cs)), [], b.span
            c = cs[0]
            cnt = b.count_on_paths({c.bb})
            if cnt[1] > 1:
                return False, "the completion can be called more than once on a path", [], c.loc
            need = {"state": None, "data": None, "completion": None}
            for bb, vals, n in b.guards_of(c.bb):
                so = b.switch_origin(bb)
                if so[0] != "discr":
                    continue
                src = so[1]
                if src[0] == "call" and src[1].callee.get("name") in ("take", "replace"):
                    fld = self_field(b.origin(src[1].args[0]))
                    if fld and fld[-1] in need:
                        need[fld[-1]] = (list(vals), src[1])
            for fld, v in need.items():
                if v is None:
                    return False, ("the completion call is not control-dependent on the *taken* `%s` field: all three "
                                   "fields must be taken (leaving Completed/None/None behind) before completing, so a "
                                   "later drop finds nothing to complete" % fld), [], c.loc
            if need["state"][0] != [str(variants.index("Started"))]:
                return False, "completion runs for state discriminant %s, not only Started" % need["state"][0], [], c.loc
            if need["data"][0] != ["1"] or need["completion"][0] != ["1"]:
                return False, "completion runs when data/completion are not Some", [], c.loc
            # all three takes dominate the call (they run on every path, also the ones that do not complete)
            for fld, (vals, tcs) in need.items():
                if b.count_on_paths({tcs.bb}) != (1, 1):
                    return False, "`%s` is not taken on every path through %s" % (fld, method), [], tcs.loc
            ro = b.origin(c.args[0])
            if recv_is_param:
                if not mir.o_is_param(ro, idx=2):
                    return False, "complete_with must call the completion it was given, calls %s" % o_str(ro), [], c.loc
            else:
                src = ro
                # receiver: the payload of the taken self.completion
                rr = common.roots(ro)
                if ("callsite", need["completion"][1].bb) not in rr:
                    return False, "complete_default calls %s, not the guard's own completion" % o_str(ro), [], c.loc
            # the span handed over is built from the taken data and timer
            so = b.origin(c.args[1])
            rr = common.roots(so)
            if ("callsite", need["data"][1].bb) not in rr or ("callsite", need["state"][1].bb) not in rr:
                return False, "the completed span is not built from the taken data and timer: %s" % o_str(so), [], c.loc
            # return value: true exactly on the completing path
            for rb in b.return_blocks():
                for path in b.acyclic_paths(0, rb):
                    ps = mir.PathSummary(b, path)
                    v = mir.o_const_value(ps.ret())
                    if (c.bb in ps.pos) != (v is True):
                        return False, "returns %s on a path that %s complete" % (v, "does" if c.bb in ps.pos else "does not"), [], c.loc
            return True, "", [c.loc]
        return f
    chk.ob("%s.R1:complete_default" % prefix, "complete_default completes only under (Started, Some, Some) of the three taken fields, at most once",
           completion_site("complete_default", False))
    chk.ob("%s.R1:complete_with" % prefix, "complete_with completes only under (Started, Some, Some) of the three taken fields, with the given completion",
           completion_site("complete_with", True))
    return guard_bodies, variants


def _is_empty(b, op):
    o = b.origin(op)
    while o[0] in ("ref", "copy", "deref"):
        o = o[1]
    if o[0] == "agg":
        return (o[1].get("adt") or "").endswith("empty::Empty")
    if o[0] == "const":
        return "empty::Empty" in str(o[1].get("ty") or "") or "Empty" in str(o[1].get("def") or "")
    return False


def run(chk):
    P = mir.Program("K1")
    chk.use_program(P)
    chk.explain("Typestate rules over built MIR of emit::span::SpanGuard and its collaborators: R1 completion call "
                "sites and their three-way match on (state.take(), data.take(), completion.take()); R2 Drop and "
                "complete() route through complete_default; R3 start() only moves Initial to Started and restores any "
                "other state; R4 enablement is monotone across every SpanGuard aggregate construction; R5 builders "
                "take state and data so the consumed guard is inert; R6 Timer reads the clock once at start and once "
                "at extent; R7 the default completion's panic arm; level plumbing of the macro completion hooks. "
                "Thorough tier adds the macro call-site corpus (K4) and consume-on-complete compile_fail witnesses.")
    chk.trust("rustc nightly: type checking, MIR construction; Option::take/map, mem::replace contracts")
    chk.exhaustive = True
    guard_bodies, variants = completion_rules(chk, P, "C05")

    # ---------------- R2 ---------------------------------------------------------------------------------
    def routes(key, what):
        def f():
            b = P.body(key)
            cs = b.calls_to(path_re=r"SpanGuard::<.*>::complete_default$")
            if len(cs) != 1 or b.count_on_paths({cs[0].bb}) != (1, 1):
                return False, "%s must call complete_default exactly once on every path" % what, [], b.span
            ro = b.origin(cs[0].args[0])
            if not mir.o_is_param(ro, idx=1):
                return False, "complete_default is called on %s" % o_str(ro), [], cs[0].loc
            if b.local_ty(0) == "bool":
                r = b.origin(0)
                if not (r[0] == "call" and r[1].bb == cs[0].bb):
                    return False, "returns %s rather than whether the span completed" % o_str(r), [], cs[0].loc
            return True, "", [cs[0].loc]
        return f
    chk.ob("C05.R2:Drop", "dropping a guard completes it through complete_default",
           routes("<emit::span::SpanGuard<'a, T, P, F> as core::ops::drop::Drop>::drop", "Drop"))
    chk.ob("C05.R2:complete", "complete() is complete_default()", routes(GP + "complete", "complete"))

    # ---------------- R3 ---------------------------------------------------------------------------------
    def r3():
        b = P.body(GP + "start")
        takes = [c for c in b.calls(normal_only=True) if c.callee.get("name") in ("replace", "take")
                 and self_field(b.origin(c.args[0])) == ["state"]]
        if len(takes) != 1:
            return False, "start must take the state exactly once", [], b.span
        tk = takes[0]
        init = str(variants.index("Initial"))
        for rb in b.return_blocks():
            for path in b.acyclic_paths(0, rb):
                ps = mir.PathSummary(b, path)
                dec = [vals for _, o, vals in ps.decisions() if o[0] == "discr" and o[1][0] == "call" and o[1][1].bb == tk.bb]
                if not dec:
                    return False, "a path through start does not inspect the taken state", [], b.span
                is_init = dec[0] == (init,)
                writes = []
                for bb in path:
                    for s in b.blocks[bb]["stmts"]:
                        if s["k"] == "assign" and s["place"].get("p") and s["place"]["l"] == 1:
                            names = [p.get("n") for p in s["place"]["p"] if isinstance(p, dict) and "f" in p]
                            if names == ["state"]:
                                writes.append(s)
                if not writes and is_init:
                    # the store may sit in a private helper called with `self` on this path (an extracted step): summarise it
                    ok_helper = False
                    for bb in path:
                        t0 = b.blocks[bb]["term"]
                        if t0["k"] != "call":
                            continue
                        c0 = mir.CallSite(b, bb, t0)
                        tgt = c0.callee.get("resolved") or c0.callee.get("path")
                        if not tgt or not P.has_body(tgt) or not c0.args or not mir.o_is_param(mir.o_root(b.origin(c0.args[0])), idx=1):
                            continue
                        hb = P.body(tgt)
                        hw = [(hbb, st2) for hbb, j2, st2 in hb.statements(normal_only=True) if st2["k"] == "assign" and st2["place"].get("p") and st2["place"]["l"] == 1
                              and [p.get("n") for p in st2["place"]["p"] if isinstance(p, dict) and "f" in p] == ["state"]]
                        if len(hw) != 1 or not hb.must_pass([hw[0][0]]):
                            continue
                        ho = hb.origin(hw[0][1]["rv"]["op"]) if hw[0][1]["rv"]["k"] == "use" else ("unknown",)
                        if ho[0] == "agg" and ho[1].get("variant") == "Started" and mir.o_is_call(ho[2][0], name="start"):
                            pr = mir.o_root(hb.origin(ho[2][0][1].args[0]))
                            if pr[0] == "param" and pr[1] - 1 < len(c0.args) and ("callsite", tk.bb) in common.roots(b.origin(c0.args[pr[1] - 1])):
                                ok_helper = True
                    if ok_helper:
                        continue
                if not writes:
                    return False, ("a path through start() takes the state (leaving Completed) and never writes one back: "
                                   "%s" % ("the Initial arm does not store Started" if is_init else
                                           "calling start() on an already started guard discards its timer, so the span "
                                           "never completes")), [], tk.loc
                w = writes[-1]
                wo = ps.origin(w["rv"]["op"]) if w["rv"]["k"] == "use" else ("unknown",)
                if is_init:
                    if not (wo[0] == "agg" and wo[1].get("variant") == "Started"):
                        return False, "Initial arm stores %s, not Started(timer)" % o_str(wo), [], tk.loc
                    t = wo[2][0]
                    if not mir.o_is_call(t, name="start"):
                        return False, "Started payload is %s, not Timer::start(clock)" % o_str(t), [], tk.loc
                    if ("callsite", tk.bb) not in common.roots(t):
                        return False, "the timer is not started from the guard's own clock", [], tk.loc
                else:
                    if wo[0] == "agg" and wo[1].get("variant") == "Started":
                        return False, "a guard that is not Initial is (re)started: an already started span would restart its timer", [], tk.loc
                    if not (wo[0] == "call" and wo[1].bb == tk.bb):
                        return False, "non-Initial arm stores %s, not the state it took" % o_str(wo), [], tk.loc
        return True, "", [tk.loc]
    chk.ob("C05.R3:start", "start() moves Initial to Started(Timer::start(clock)) and restores any other state untouched", r3)

    # ---------------- R4 / R5 ---------------------------------------------------------------------------------
    ctor_sites = []
    for b in P.by_crate["emit"]:
        for bb, j, s in b.statements(normal_only=True):
            if s["k"] == "assign" and s["rv"]["k"] == "agg" and s["rv"].get("adt") == GUARD:
                ctor_sites.append((b, bb, j, s))
    chk.floor("SpanGuard aggregate constructions", len(ctor_sites), 3)
    for idx, (b, bb, j, s) in enumerate(sorted(ctor_sites, key=lambda x: x[0].key)):
        rv = s["rv"]
        fields = rv["fields"]
        ops = {f: b.origin(o) for f, o in zip(fields, rv["ops"])}
        loc = "%s:%s" % (b.file, s.get("line"))
        is_new = mir._strip_lifetimes(b.key) == mir._strip_lifetimes(GP + "new")

        def r4(b=b, ops=ops, is_new=is_new, loc=loc, bb=bb):
            o = ops["completion"]
            if is_new:
                if o[0] != "phi":
                    return False, ("SpanGuard::new sets completion to %s unconditionally; it must be Some only when the "
                                   "filter accepted the span" % o_str(o)), [], loc
                somes = [x for x in o[1] if x[0] == "agg" and x[1].get("variant") == "Some"]
                nones = [x for x in o[1] if x[0] == "agg" and x[1].get("variant") == "None"]
                if len(somes) != 1 or len(nones) != 1:
                    return False, "completion is %s, expected `if is_enabled { Some(completion) } else { None }`" % o_str(o), [], loc
                if not mir.o_is_param(somes[0][2][0], name="completion"):
                    return False, "Some(..) wraps %s, not the completion argument" % o_str(somes[0][2][0]), [], loc
                # the Some assignment is control dependent on the filter result
                local = o[2]
                sdefs = [d for d in b.defs()[local] if d[2] == "assign" and d[3].get("variant") == "Some"]
                sbb = sdefs[0][0]
                ok = False
                for gbb, vals, n in b.guards_of(sbb):
                    so = b.switch_origin(gbb)
                    if mir.o_is_call(so, name="with_current") and list(vals) != ["0"]:
                        clo = b.origin(so[1].args[1])
                        if clo[0] == "agg" and clo[1].get("ak") == "closure":
                            cb = P.body(clo[1]["def"])
                            ms = cb.calls_to(trait=FILTER, name="matches")
                            if len(ms) == 1 and common.has_root(cb.origin(ms[0].args[0]), "capture", "filter"):
                                r = cb.origin(0)
                                if r[0] == "call" and r[1].bb == ms[0].bb:
                                    ok = True
                if not ok:
                    return False, "Some(completion) is not control-dependent on the accept edge of the span filter", [], loc
                return True, "enabled iff the filter accepted", [loc]
            root = strip_option_chain(b, o)
            if root[0] == "agg" and root[1].get("variant") == "Some":
                return False, ("this builder constructs a guard with `completion: Some(..)` regardless of the previous "
                               "guard: a span the filter rejected becomes enabled and completes"), [], loc
            fld = self_field(root)
            if fld != ["completion"]:
                return False, "the new guard's completion is %s, not derived from the previous guard's completion" % o_str(o), [], loc
            return True, "completion derived from self.completion", [loc]
        chk.ob("C05.R4:%s#%d" % (b.key, idx), "enablement is monotone: a constructed guard is enabled only if its predecessor was (or, in new, the filter accepted)", r4, loc=loc)

        if not is_new:
            def r5(b=b, ops=ops, loc=loc):
                so = strip_option_chain(b, ops["state"])
                if not (ops["state"][0] == "call" and ops["state"][1].callee.get("name") in ("take", "replace")
                        and self_field(b.origin(ops["state"][1].args[0])) == ["state"]):
                    return False, "state is %s: the builder must *take* the old guard's state so its Drop is inert" % o_str(ops["state"]), [], loc
                d = strip_option_chain(b, ops["data"])
                if not (d[0] == "field" or d[0] == "param") or self_field(d) != ["data"]:
                    return False, "data is %s, not taken from the old guard" % o_str(ops["data"]), [], loc
                # data must go through take()
                chain = ops["data"]
                took = False
                n = 0
                while chain[0] == "call" and n < 10:
                    if chain[1].callee.get("name") in ("take", "replace"):
                        took = True
                    chain = b.origin(chain[1].args[0])
                    n += 1
                if not took:
                    return False, "data is copied, not taken, from the old guard", [], loc
                return True, "", [loc]
            chk.ob("C05.R5:%s#%d" % (b.key, idx), "builders take state and data from the consumed guard (its Drop then finds Completed/None)", r5, loc=loc)

    # ---------------- R6 Timer ---------------------------------------------------------------------------------
    def timer_start():
        b = P.body("emit::timer::Timer::<C>::start")
        now = b.calls_to(trait=CLOCK, name="now")
        if len(now) != 1 or b.count_on_paths({now[0].bb}) != (1, 1):
            return False, "Timer::start must read the clock exactly once", [], b.span
        o = b.origin(0)
        if o[0] != "agg":
            return False, "Timer::start returns %s" % o_str(o), [], b.span
        f = dict(zip(o[1]["fields"], o[2]))
        if not (f["start"][0] == "call" and f["start"][1].bb == now[0].bb):
            return False, "Timer.start is %s, not the reading taken now" % o_str(f["start"]), [], b.span
        if not mir.o_is_param(f["clock"], idx=1):
            return False, "Timer.clock is %s" % o_str(f["clock"]), [], b.span
        return True, "", [now[0].loc]
    chk.ob("C05.R6:Timer::start", "the start reading is one Clock::now taken at start", timer_start)

    def timer_extent():
        b = P.body("emit::timer::Timer::<C>::extent")
        now = b.calls_to(trait=CLOCK, name="now")
        if len(now) != 1 or b.count_on_paths({now[0].bb}) != (1, 1):
            return False, "Timer::extent must read the clock exactly once", [], b.span
        rg = b.calls_to(path_re=r"Extent::range")
        if len(rg) != 1:
            return False, "expected one Extent::range construction", [], b.span
        ro = b.origin(rg[0].args[0])
        if ro[0] != "agg" or (ro[1].get("adt") or "") != "core::ops::range::Range":
            return False, "range argument is %s" % o_str(ro), [], rg[0].loc
        f = dict(zip(ro[1]["fields"], ro[2]))
        s_names = self_field(mir.o_field_path(f["start"])[0]) if False else None
        sr = common.roots(f["start"])
        er = common.roots(f["end"])
        if ("param", 1) not in sr or ("callsite", now[0].bb) in sr:
            return False, "range start is %s, not the timer's start reading" % o_str(f["start"]), [], rg[0].loc
        if ("callsite", now[0].bb) not in er:
            return False, "range end is %s, not the reading taken at completion" % o_str(f["end"]), [], rg[0].loc
        # Some(range) only when both readings are Some
        g = b.guards_of(rg[0].bb)
        ds = [b.switch_origin(bb) for bb, vals, n in g if list(vals) == ["1"] and b.switch_origin(bb)[0] == "discr"]
        if len(ds) < 2:
            return False, "the range is not guarded by both readings being present", [], rg[0].loc
        return True, "", [now[0].loc, rg[0].loc]
    chk.ob("C05.R6:Timer::extent", "the extent is range(start reading .. a fresh Clock::now), only when both exist", timer_extent)

    def timer_to_extent():
        bs = [b for b in P.find(trait="emit_core::extent::ToExtent", method="to_extent") if not b.is_closure and (b.self_ty or "").startswith("emit::timer::Timer<")]
        if not bs:
            raise mir.AnchorMissing("impl ToExtent for Timer")
        b = bs[0]
        cs = [c for c in b.calls(normal_only=True)]
        ex = [c for c in cs if (c.callee.get("path") or "").endswith("Timer::<C>::extent") or c.callee.get("name") == "extent"]
        if len(ex) != 1 or len(cs) != 1:
            return False, ("a completed span takes its extent through Timer's ToExtent impl, which must be exactly Timer::extent() "
                           "(start reading .. fresh reading); it calls %s" % [c.callee.get("name") for c in cs]), [], b.span
        if not mir.o_is_param(b.origin(ex[0].args[0], through_calls=("deref",)), idx=1):
            return False, "to_extent does not ask self", [], ex[0].loc
        r = b.origin(0)
        if not (r[0] == "call" and r[1].bb == ex[0].bb):
            return False, "to_extent does not return Timer::extent()'s result", [], ex[0].loc
        return True, "", [ex[0].loc]
    chk.ob("C05.R6:Timer::to_extent", "the extent a completed span carries is Timer::extent() (range start..now, also when the clock went backwards)", timer_to_extent)

    # ---------------- R7 default completion panic arm ---------------------------------------------------------
    def is_panicking():
        ks = [k for k in P.bodies if k.endswith("::complete::is_panicking")]
        if not ks:
            raise mir.AnchorMissing("Default::complete::is_panicking")
        b = P.body(ks[0])
        cs = b.calls(normal_only=True)
        if cs:
            if len(cs) == 1 and cs[0].callee.get("path", "").endswith("thread::functions::panicking") or \
                    (len(cs) == 1 and cs[0].callee.get("name") == "panicking"):
                if not mir.o_is_call(b.origin(0), name="panicking"):
                    return False, "is_panicking() does not return the result of std::thread::panicking()", [], b.span
                return True, "std::thread::panicking()", [cs[0].loc]
            return False, "is_panicking() calls %s" % [c.callee.get("path") for c in cs], [], b.span
        v = common.const_return(b)
        if v is not False:
            return False, "without std nothing can be unwinding through the guard: is_panicking() must be constant false (found %r)" % (v,), [], b.span
        return True, "constant false (no std)", [b.span]
    chk.ob("C05.R7:is_panicking", "the panic arm is selected by std::thread::panicking(); without std it is never selected", is_panicking)

    def r7():
        b = P.impl_method(COMPLETION, "emit::span::completion::Default<'a, E, C, L>", "complete")
        ip = [c for c in b.calls(normal_only=True) if c.callee.get("name") in ("is_panicking", "panicking")]
        if len(ip) != 1:
            return False, "expected one is_panicking() test, found %d" % len(ip), [], b.span
        arrays = []
        for bb, j, s in b.statements(normal_only=True):
            if s["k"] == "assign" and s["rv"]["k"] == "agg" and s["rv"].get("ak") == "array" and len(s["rv"]["ops"]) == 2:
                arrays.append((bb, s))
        if len(arrays) != 2:
            return False, "expected the two completion-prop arrays (panic / normal), found %d" % len(arrays), [], b.span
        seen = {}
        for bb, s in arrays:
            g = [(vals) for gbb, vals, n in b.guards_of(bb) if mir.o_is_call(b.switch_origin(gbb)) and b.switch_origin(gbb)[1].bb == ip[0].bb]
            if not g:
                return False, "a completion-prop array is not control-dependent on is_panicking()", [], "%s:%s" % (b.file, s.get("line"))
            panicking = list(g[0]) != ["0"]
            o0 = b.origin(s["rv"]["ops"][0])
            o1 = b.origin(s["rv"]["ops"][1])
            r0 = common.roots(o0)
            has_err = not (o1[0] == "agg" and o1[1].get("variant") == "None")
            lvl_src = None
            def walk(o, acc, depth=0):
                if depth > 25:
                    return
                if o[0] == "field":
                    acc.append(o[2])
                if o[0] == "call":
                    for a in o[1].args:
                        walk(o[1].body.origin(a), acc, depth + 1)
                elif o[0] in ("field", "downcast", "index", "cast"):
                    walk(o[1], acc, depth + 1)
                elif o[0] == "agg":
                    for x in o[2]:
                        walk(x, acc, depth + 1)
            acc = []
            walk(o0, acc)
            seen[panicking] = (acc, has_err)
        if True not in seen or False not in seen:
            return False, "both arms of is_panicking() must build completion props", [], b.span
        if "panic_lvl" not in seen[True][0] or not seen[True][1]:
            return False, "the panicking arm must carry panic_lvl and the error (fields used: %s, error: %s)" % seen[True], [], ip[0].loc
        if "lvl" in seen[True][0]:
            return False, ("while panicking the level falls back to the span's normal `lvl` before `error`: a levelled span (info_span, debug_span ..) that panics "
                           "completes at its ordinary level instead of the panic level"), [], ip[0].loc
        if "lvl" not in seen[False][0] or "panic_lvl" in seen[False][0] or seen[False][1]:
            return False, "the normal arm must carry lvl and no error (fields used: %s, error: %s)" % seen[False], [], ip[0].loc
        # lookups are first-wins: the completion's own props (level, error) must come *before* the span's props
        ap = [(x, c) for x in [b] + P.closures_of(b) for c in x.calls(normal_only=True) if c.callee.get("name") == "and_props"]
        if len(ap) != 1:
            return False, "expected one and_props joining completion props and span props, found %d" % len(ap), [], b.span
        xb, c = ap[0]
        recv = xb.origin(c.args[0])
        arg = xb.origin(c.args[1])
        def is_completion_props(o):
            # by provenance, not by variable name: the value is (a capture of) the two-element array built under is_panicking()
            def arrayish(x, d=0):
                if d > 6:
                    return False
                if x[0] == "agg" and x[1].get("ak") == "array" and len(x[2]) == 2:
                    return True
                if x[0] == "phi":
                    return bool(x[1]) and all(arrayish(y, d + 1) for y in x[1])
                if x[0] in ("local",):
                    ds = [dd for dd in b.defs().get(x[1], ()) if dd[2] == "assign" and dd[3].get("k") == "agg" and dd[3].get("ak") == "array"]
                    return len(ds) == 2
                return False
            x = o
            if x[0] == "capture" and xb.is_closure:
                x = P.capture_origin(xb, x)
            return arrayish(x)
        def is_span_props(o):
            return any(k == "param" and v >= 2 for k, v in common.roots(o)) and xb.is_closure
        if not is_completion_props(recv) or is_completion_props(arg):
            return False, ("the completed event's props are %s.and_props(%s): the completion's level and error must come first so that they win "
                           "over a `lvl`/`err` the span's own props may carry (first value wins)" % (o_str(recv), o_str(arg))), [], c.loc
        em = b.calls_to(path="emit_core::emit")
        if len(em) != 1 or b.count_on_paths({em[0].bb}) != (1, 1):
            return False, "Default::complete must emit exactly once", [], b.span
        e = em[0]
        if self_field(b.origin(e.args[0])) != ["emitter"] or self_field(b.origin(e.args[2])) != ["ctxt"]:
            return False, "emits through %s / %s" % (o_str(b.origin(e.args[0])), o_str(b.origin(e.args[2]))), [], e.loc
        if not common.has_root(b.origin(e.args[4]), "param", 2):
            return False, "the emitted event is not built from the completed span", [], e.loc
        if not _is_empty(b, e.args[1]):
            return False, "the completion filters the completed span again (%s): the filter decision was taken when the span began" % o_str(b.origin(e.args[1])), [], e.loc
        return True, "", [ip[0].loc, e.loc]
    chk.ob("C05.R7:Default::complete", "the default completion adds panic level + error only while panicking, the span level otherwise, and emits once through its own emitter and ctxt", r7)

    def builder(method, field):
        def f():
            b = P.body("emit::span::completion::Default::<'a, E, C, L>::%s" % method)
            o = b.origin(0)
            if o[0] != "agg":
                return False, "returns %s" % o_str(o), [], b.span
            f_ = dict(zip(o[1]["fields"], o[2]))
            for name, val in f_.items():
                if name == field:
                    if not (val[0] == "agg" and val[1].get("variant") == "Some" and mir.o_is_param(val[2][0], idx=2)):
                        return False, "%s sets %s to %s" % (method, name, o_str(val)), [], b.span
                else:
                    if self_field(val) != [name]:
                        return False, "%s sets %s to %s instead of keeping self.%s" % (method, name, o_str(val), name), [], b.span
            return True, "", [b.span]
        return f
    chk.ob("C05.R7:Default::with_lvl", "with_lvl stores the level in `lvl` and keeps every other field", builder("with_lvl", "lvl"))
    chk.ob("C05.R7:Default::with_panic_lvl", "with_panic_lvl stores the level in `panic_lvl` and keeps every other field", builder("with_panic_lvl", "panic_lvl"))

    # ---------------- macro completion hooks: level plumbing -------------------------------------------------
    def hook_ctor(fn, adt_suffix, pairs):
        def f():
            b = P.body("emit::macro_hooks::%s" % fn)
            o = b.origin(0)
            if o[0] != "agg" or not (o[1].get("adt") or "").endswith(adt_suffix):
                return False, "returns %s" % o_str(o), [], b.span
            f_ = dict(zip(o[1]["fields"], o[2]))
            for field, pname in pairs.items():
                if not common.has_root(f_[field], "param", [i for i in range(1, b.argc + 1) if b.local_name(i) == pname][0]):
                    return False, "field `%s` is initialised from %s, not from parameter `%s`" % (field, o_str(f_[field]), pname), [], b.span
                others = [i for i in range(1, b.argc + 1) if b.local_name(i) in pairs.values() and b.local_name(i) != pname]
                if any(common.has_root(f_[field], "param", i) for i in others):
                    return False, "field `%s` mixes in another parameter" % field, [], b.span
            return True, "", [b.span]
        return f
    def completions_do_not_filter():
        """Whether a span is enabled is decided once, when it begins (the guard is created enabled or disabled).  Its completion event is then emitted
        unconditionally: every Completion impl of the crate that emits directly passes the empty filter to emit_core::emit.  A completion that
        consults a filter again can reject the event after the guard has been consumed: an enabled, started span that completes zero times."""
        ev = []
        for bb_ in P.bodies.values():
            if bb_.crate != "emit" or bb_.is_closure or bb_.trait != COMPLETION or bb_.method != "complete":
                continue
            for x in [bb_] + P.closures_of(bb_):
                for c in x.calls_to(path="emit_core::emit"):
                    if not _is_empty(x, c.args[1]):
                        return False, ("%s emits the completed span through the filter %s: a span that was enabled when it began can be rejected at completion "
                                       "(and `when:` is ignored there)" % (bb_.key, o_str(x.origin(c.args[1])))), [], c.loc
                    ev.append(c.loc)
        if len(ev) < 3:
            raise mir.AnchorMissing("Completion impls that emit directly (found %d)" % len(ev))
        return True, "", ev
    chk.ob("C05.R7:completions-do-not-filter", "no completion consults a filter: the enabled / disabled decision was taken when the span began", completions_do_not_filter)

    chk.ob("C05.hooks:__private_complete_span", "the macro hook stores lvl/panic_lvl/tpl/rt in the like-named fields",
           hook_ctor("__private_complete_span", "__PrivateCompleteSpan", {"rt": "rt", "tpl": "tpl", "lvl": "lvl", "panic_lvl": "panic_lvl"}))
    chk.ob("C05.hooks:__private_complete_span_ok", "the macro hook stores lvl/tpl/rt in the like-named fields",
           hook_ctor("__private_complete_span_ok", "__PrivateCompleteSpanOk", {"rt": "rt", "tpl": "tpl", "lvl": "lvl"}))
    chk.ob("C05.hooks:__private_complete_span_err", "the macro hook stores lvl/err/tpl/rt in the like-named fields",
           hook_ctor("__private_complete_span_err", "__PrivateCompleteSpanErr", {"rt": "rt", "tpl": "tpl", "lvl": "lvl", "err": "err"}))

    def hook_complete():
        b = P.impl_method(COMPLETION, "emit::macro_hooks::__PrivateCompleteSpan<'a, 'b, E, F, C, T, R, CL, CLP>", "complete")
        wl = b.calls_to(name="with_lvl")
        wp = b.calls_to(name="with_panic_lvl")
        if len(wl) != 1 or len(wp) != 1:
            return False, "expected one with_lvl and one with_panic_lvl", [], b.span
        def src_field(c):
            acc = []
            def walk(o, d=0):
                if d > 20:
                    return
                if o[0] == "field" and o[1][0] == "param" and o[1][1] == 1:
                    acc.append(o[2])
                if o[0] == "call":
                    for a in o[1].args:
                        walk(b.origin(a), d + 1)
                elif o[0] in ("field", "downcast", "index", "cast", "discr"):
                    walk(o[1], d + 1)
                elif o[0] == "phi":
                    for x in o[1]:
                        walk(x, d + 1)
            walk(b.origin(c.args[1]))
            return acc
        if src_field(wl[0]) != ["lvl"]:
            return False, "with_lvl is fed from self.%s" % src_field(wl[0]), [], wl[0].loc
        if src_field(wp[0]) != ["panic_lvl"]:
            return False, "with_panic_lvl is fed from self.%s" % src_field(wp[0]), [], wp[0].loc
        cc = b.calls_to(trait=COMPLETION, name="complete")
        if len(cc) != 1 or b.count_on_paths({cc[0].bb}) != (1, 1):
            return False, "must complete exactly once", [], b.span
        if not common.has_root(b.origin(cc[0].args[1]), "param", 2):
            return False, "does not pass the span on", [], cc[0].loc
        # the two levels are applied independently: whether one is set depends on its own field only (a span may carry both a regular
        # level and a panic level), and the completion that runs has been through both
        def fields_of(o, d=0):
            acc = set()
            if d > 20:
                return acc
            if o[0] == "field" and o[1][0] == "param" and o[1][1] == 1:
                acc.add(o[2])
            if o[0] == "call":
                for a in o[1].args:
                    acc |= fields_of(b.origin(a), d + 1)
            elif o[0] in ("field", "downcast", "index", "cast", "discr", "unop", "ref", "deref", "copy"):
                acc |= fields_of(o[1] if o[0] != "unop" else o[2], d + 1)
            elif o[0] == "binop":
                acc |= fields_of(o[2], d + 1) | fields_of(o[3], d + 1)
            elif o[0] == "phi":
                for x in o[1]:
                    acc |= fields_of(x, d + 1)
            elif o[0] == "agg":
                for x in o[2]:
                    acc |= fields_of(x, d + 1)
            return acc
        for c, own in ((wl[0], "lvl"), (wp[0], "panic_lvl")):
            for gbb, vals, n in b.guards_of(c.bb):
                dep = fields_of(b.switch_origin(gbb)) - {own}
                if dep & {"lvl", "panic_lvl"}:
                    return False, ("%s is applied only under a condition on self.%s: a span that sets both a level and a panic level loses one "
                                   "of them" % (c.callee.get("name"), sorted(dep)[0])), [], c.loc
        final = b.origin(cc[0].args[0])
        seen_calls = set()
        def chain(o, d=0):
            if d > 30:
                return
            if o[0] == "call":
                seen_calls.add(o[1].callee.get("name"))
                if o[1].args:
                    chain(b.origin(o[1].args[0]), d + 1)
            elif o[0] == "phi":
                for x in o[1]:
                    chain(x, d + 1)
            elif o[0] in ("field", "downcast", "ref", "deref", "copy"):
                chain(o[1], d + 1)
        chain(final)
        if not {"with_lvl", "with_panic_lvl"} <= seen_calls:
            return False, "the completion that runs has not been through both with_lvl and with_panic_lvl (%s)" % sorted(seen_calls), [], cc[0].loc
        return True, "", [wl[0].loc, wp[0].loc, cc[0].loc]
    chk.ob("C05.hooks:__PrivateCompleteSpan::complete", "the macro completion feeds lvl to with_lvl and panic_lvl to with_panic_lvl and completes once", hook_complete)

    common.builder_rules(chk, P, "C05", lambda b: b.crate == "emit" and (b.key.startswith("emit::span::Span::<") or b.key.startswith("emit::span::SpanGuard::<")
                                                                  or b.key.startswith("emit::timer::Timer::<") or b.key.startswith("emit::span::completion::Default::<")), 12)
    # the macro side of the same plumbing, read off the quote! templates of emit_macros (macro/runtime boundary)
    from . import quotes
    quotes.boundary_rule(chk, P, "C05", {"__private_complete_span", "__private_complete_span_ok", "__private_complete_span_err",
                                         "__private_begin_span"}, 7)
    quotes.flows_rule(chk, P, "C05", "emit_macros::span::completion", "__private_complete_span", "panic_lvl", ("panic_lvl",), ("default_lvl", "lvl"))
    quotes.flows_rule(chk, P, "C05", "emit_macros::span::completion", "__private_complete_span", "lvl", ("default_lvl",), ("panic_lvl",))

    # forwarding Completion impls
    n = 0
    for b in P.find(trait=COMPLETION, method="complete"):
        if b.is_closure:
            continue
        if common.is_wrapper_self(b.self_ty) or common.is_dispatch_impl(b):
            n += 1
            chk.ob("C05.forward:%s" % b.key, "forwarding Completion impl completes the inner completion exactly once",
                   lambda b=b: common.forward_check(b), loc=b.span)
    for b in P.bodies.values():
        if b.trait and "DispatchCompletion" in b.trait and not b.is_closure:
            n += 1
            chk.ob("C05.forward:%s" % b.key, "erased Completion bridge forwards exactly once", lambda b=b: common.forward_check(b), loc=b.span)
    chk.floor("forwarding Completion impls", n, 3)

    # argument agreement in the files the span machinery lives in (incl. the proc-macro crate)
    common.arg_agreement_rule(chk, P, "C05", [("emit", "src/span.rs"), ("emit", "src/timer.rs"),
                                               ("emit", "src/macro_hooks.rs"), ("emit_macros", "src/span.rs")], 20)

    if True:
        thorough(chk)
    from . import witness
    witness.witness_rule(chk, "C05", 5)
    if not getattr(chk, "_overlay", None):
        common.linear_types_rule(chk, P, "C05.R8:guards-are-linear", "a span guard cannot be copied (a copy would complete the span a second time)",
                                 {"emit::span::SpanGuard": "each copy completes on drop: the span would complete twice"})

    def who_writes_guard_state():
        """The typestate of a span guard (state / data / completion) is only changed by the methods the typestate rules above decide: a further
        writer - an added `restart`, `reset`, `take_data` - is outside them (a started span reset to Initial is never completed; a completed one
        re-armed completes twice)."""
        KNOWN = ("start", "complete_default", "complete_with", "map_props", "with_completion", "new", "disabled", "drop", "complete", "with_mdl", "with_name",
                 "with_props", "with_ctxt_props", "with_parent", "with_lvl")
        bad = []
        n = 0
        for k, b in P.bodies.items():
            if b.crate != "emit" or b.is_closure or "span.rs" not in b.file or "::tests::" in k:
                continue
            writes = []
            for bb, j2, st in b.statements(normal_only=True):
                if st["k"] == "assign" and st["place"].get("p"):
                    names = [p.get("n") for p in st["place"]["p"] if isinstance(p, dict) and "n" in p]
                    if names and names[-1] in ("state", "completion") and "SpanGuard<" in b.local_ty(st["place"]["l"]):
                        writes.append(names[-1])
            for c in b.calls(normal_only=True):
                if c.callee.get("name") in ("take", "replace", "insert", "get_or_insert", "get_or_insert_with") and c.args:
                    r, names = mir.o_field_path(b.origin(c.args[0]))
                    if names and names[-1] in ("state", "completion", "data") and r[0] == "param" and "SpanGuard<" in b.local_ty(r[1]):
                        writes.append(names[-1])
            if writes:
                n += 1
                if k.rsplit("::", 1)[-1] not in KNOWN:
                    # a private helper reached only from the decided methods is part of them (an extracted step), not a new way in
                    vis = (P.fns.get(k) or {}).get("vis")
                    callers = {x.key.split("::{closure")[0] for x in P.bodies.values() if x.crate == "emit" for c in x.calls(normal_only=True)
                               if (c.callee.get("resolved") or c.callee.get("path")) == k}
                    if vis != "Public" and callers and all(cn.rsplit("::", 1)[-1] in KNOWN for cn in callers):
                        continue
                    bad.append((b, writes))
        if n < 5:
            raise mir.AnchorMissing("writers of the span guard's typestate (found %d)" % n)
        if bad:
            b, w = bad[0]
            return False, ("%s changes the span guard's %s, but is not one of the methods the completion typestate is decided over (%s)"
                           % (b.key, "/".join(sorted(set(w))), ", ".join(KNOWN[:5]) + ", ...")), [], b.span
        return True, "", ["%d writers, all decided by the typestate rules" % n]
    chk.ob("C05.R8:who-writes-guard-state", "the span guard's state, data and completion are changed only by the methods the typestate rules decide", who_writes_guard_state)

    # ---- R9: no user code runs while the guard is disarmed ------------------------------------------------------------------------------------
    # A builder step rebuilds the guard from parts it `take`s out of `self`; the old `self` is then an empty shell whose Drop completes nothing.  If a
    # caller-supplied callable runs in that window and panics, the unwinding finds only the shell: a span that was started and enabled yields *no*
    # completion - "however it ends ... or panic unwinding" fails.  One obligation per SpanGuard method that takes the guard apart.
    def disarmed_rule(b):
        def f():
            takes = [c for c in b.calls(normal_only=True) if c.callee.get("name") == "take" and c.args
                     and (mir.o_field_path(b.origin(c.args[0], through_calls=("deref_mut",)))[1] or [None])[-1] in ("data", "state", "completion")
                     and common.has_root(b.origin(c.args[0], through_calls=("deref_mut",)), "param", 1)]
            if not takes:
                return True, "", ["does not take the guard apart"]
            after = set()
            for t in takes:
                after |= set(b.reachable_from(t.bb))
            for x in [b] + P.closures_of(b):
                for c in x.calls(normal_only=True):
                    if c.callee.get("name") not in ("call_once", "call_mut", "call"):
                        continue
                    o = x.origin(c.args[0])
                    user = False
                    if x is b:
                        user = o[0] == "param" and o[1] >= 2
                        site = c.bb
                    else:
                        if o[0] == "capture":
                            src, sb = common.capture_source(P, x, o)
                            user = src is not None and src[0] == "param" and src[1] >= 2
                        # where the closure is used in the parent
                        site = None
                        for bb, j, st in b.statements(normal_only=True):
                            if st["k"] == "assign" and st["rv"]["k"] == "agg" and st["rv"].get("def") == x.key:
                                site = bb
                    if user and site is not None and (site in after or any(site == t.bb for t in takes)):
                        return False, ("%s calls the caller's `%s` after it has taken %s out of the guard and before the new guard exists: if that call panics, the "
                                       "unwinding drops an empty shell and a started, enabled span completes zero times"
                                       % (b.key, (o[1] if o[0] == "capture" and isinstance(o[1], str) else (o[2] if len(o) > 2 else "closure")), "/".join(sorted({(mir.o_field_path(b.origin(t.args[0], through_calls=("deref_mut",)))[1] or ["?"])[-1] for t in takes})))), [], c.loc
            return True, "", [t.loc for t in takes]
        return f
    n_dis = 0
    for k, b in sorted(P.bodies.items()):
        if getattr(chk, "_overlay", None):
            break      # the same source is decided on the default build; the finding it reports there is keyed without a configuration prefix
        if k.startswith("emit::span::SpanGuard::<") and not b.is_closure and b.argc >= 2:
            n_dis += 1
            chk.ob("C05.R9.disarmed:%s" % re.sub(r"::<[^>]*>", "", k), "no caller-supplied code runs between taking the guard apart and rebuilding it", disarmed_rule(b))
    if not getattr(chk, "_overlay", None):
        chk.floor("SpanGuard methods with parameters examined for user calls while disarmed", n_dis, 5)
    return chk


def thorough(chk):
    from . import corpus
    corpus.span_expansion_rules(chk, "C05")
