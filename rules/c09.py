"""C09 — emitting never blocks or grows without bound; overflow drops the oldest, counted."""
from . import batcher, common, mir


OVERLAYS = ('K3',)


def run(chk):
    P = mir.Program("K1")
    chk.use_program(P)
    chk.explain("Rules over built MIR: R1 send tests len >= max_capacity under the lock, clears on the full edge, counts the "
                "truncation on exactly those paths, then pushes, and never waits; R2 try_send pushes only under len < "
                "max_capacity and hands the item back when full; R3 send_or_wait only ever uses try_send, re-sends the "
                "handed-back item, waits the remaining time and returns the item on expiry; R4 the file and OTLP "
                "emitters' emit() reach no filesystem/network/sleep/condvar/block_on/blocking-send effect and end in "
                "Sender::send (call graph over workspace bodies); R5 for every impl Channel, clear() resets every field "
                "push() updates or len() reads, and the OTLP channel's len is its item count.")
    chk.trust("rustc nightly; effect table of blocking std/tokio primitives")
    chk.assume("effects inside dependency crates are not analysed; wall-clock bounds are not decided")
    chk.exhaustive = True
    batcher.send_rules(chk, P, "C09")
    batcher.one_critical_section(chk, P, "C09")
    batcher.lossless_variants(chk, P, "C09")
    batcher.item_always_handed_on(chk, P, "C09")
    batcher.wait_closures(chk, P, "C09")
    batcher.send_or_wait_outcomes(chk, P, "C09")
    batcher.who_may(chk, P, "C09")
    batcher.state_stays_inside(chk, P, "C09")
    batcher.constructor_rule(chk, P, "C09")
    batcher.emit_only_enqueues(chk, P, "C09")
    batcher.channel_impls(chk, P, "C09")
    batcher.nothing_under_lock(chk, P, "C09")
    batcher.metrics_accounting(chk, P, "C09", ("emit_batcher", "emit_file", "emit_otlp"))
    if not getattr(chk, "_overlay", None):
        from . import c12
        c12.channel_metrics_wiring(chk, P, "C09.R6:channel-metrics-wiring")
        common.linear_types_rule(chk, P, "C09.R4:halves-are-linear", "the channel halves cannot be copied (dropping one copy would close the channel under the other)",
                                 {"emit_batcher::Sender": "Drop for Sender closes the channel: the first copy dropped stops the receiver while the others still send, "
                                                          "their items are discarded and a flush reports success at once",
                                  "emit_batcher::Receiver": "two receivers would take batches concurrently and both clear is_in_batch"})
    from . import shapes
    from .mir import o_str as _o_str
    shapes.returns_binop(chk, P, "C09.R5:EventBatch::len", "the number of events a file batch still holds is bufs.len() - index (what the capacity bound counts)",
                         "<emit_file::EventBatch as emit_batcher::Channel>::len", "Sub",
                         lambda o, b: o[0] == "call" and o[1].callee.get("name") == "len" and "bufs" in _o_str(b.origin(o[1].args[0])), lambda o, b: "index" in _o_str(o),
                         "the capacity bound of the file emitter's queue is enforced on this number")
    return chk
