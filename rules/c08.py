"""C08 — the background worker always makes progress; failures and panics never wedge it."""
from . import batcher, common, mir


OVERLAYS = ('K3',)


def run(chk):
    P = mir.Program("K1")
    chk.use_program(P)
    chk.explain("Rules over built MIR of emit_batcher and the two workers: R1 the processor runs only inside catch_unwind "
                "and its future is polled only through CatchUnwind; watchers are drained once and each runs inside "
                "catch_unwind; R2 every iteration of the retry loop consumes Retry::next() and needs a non-empty "
                "remainder, budget/delays reset per batch, back-off clamped; R3 nothing foreign (await, callback, "
                "notification, wait) while the state lock is held; R4 dropping sender/receiver closes the channel under "
                "the lock, exec returns only on the empty arm with the channel closed, is_open read in the same critical "
                "section; R5 blocking entry points never call block_on from an async context; R6 explicit-panic "
                "inventory of the worker paths.")
    chk.trust("rustc nightly; catch_unwind contains unwinding panics; tokio: Handle::block_on panics inside an async context")
    chk.assume("bounded time, OS scheduling and joining of worker threads are not decided")
    chk.exhaustive = True
    batcher.containment(chk, P, "C08")
    batcher.bounded_retry(chk, P, "C08")
    batcher.nothing_under_lock(chk, P, "C08")
    batcher.one_critical_section(chk, P, "C08")
    batcher.constructor_rule(chk, P, "C08")
    batcher.termination(chk, P, "C08")
    batcher.watchers_after_last_attempt(chk, P, "C08")
    batcher.watcher_lists(chk, P, "C08")
    batcher.tokio_blocking(chk, P, "C08")
    if not getattr(chk, "_overlay", None):
        batcher.tokio_worker_runtime(chk, P, "C08")
        from . import c07
        c07.otlp_flush_budget(chk, P, "C08.R4:otlp-flush-budget")
        from . import c11
        chk.ob("C08.R6:file-retention-terminates", "the file worker's retention loop shrinks its listing on every iteration (a failing delete cannot wedge on_batch)",
               lambda: c11.retention_terminates(P))
    batcher.retry_remainder(chk, P, "C08")
    batcher.tokio_wait(chk, P, "C08")
    batcher.time_arithmetic(chk, P, "C08")
    batcher.send_rules(chk, P, "C08")
    batcher.wait_closures(chk, P, "C08")
    batcher.send_or_wait_outcomes(chk, P, "C08")
    batcher.callbacks_consumed(chk, P, "C08")
    batcher.worker_panics(chk, P, "C08")
    batcher.workers_run_to_completion(chk, P, "C08")
    if not getattr(chk, "_overlay", None):
        common.results_inspected_rule(
            chk, P, "C08.R7:results-inspected", "no failure inside the channel machinery is silently dropped (a dropped outcome is how a worker "
            "goes on as if a step had happened)",
            lambda b: b.crate == "emit_batcher" and "::tests::" not in b.key,
            {(r"Watchers::notify_on_(flush|take)$", "catch_unwind"): "a panicking watcher callback is contained and must not stop the other watchers or the worker",
             (r"^emit_batcher::tokio::(flush|send)(::\{closure#\d+\})*$", "send"):
                 "a oneshot notification whose receiver is gone: the waiter timed out and no longer listens"},
            25)
    if chk.tier == "thorough":
        try:
            P3 = mir.Program("K3")
            chk.use_program(P3)

            def no_tokio():
                toks = [k for k in P3.bodies if k.startswith("emit_batcher::tokio::")]
                if toks:
                    return False, "the tokio module is compiled without the tokio feature", [], None
                for fn in ("blocking_flush", "blocking_send"):
                    b = P3.body("emit_batcher::sync::%s" % fn)
                    for x in [b] + P3.closures_of(b):
                        for c in x.calls(normal_only=True):
                            if c.callee.get("name") in ("block_in_place",) or "tokio" in (c.callee.get("path") or ""):
                                return False, "sync::%s uses tokio at %s" % (fn, c.loc), [], c.loc
                return True, "", ["emit_batcher::sync::blocking_flush", "emit_batcher::sync::blocking_send"]
            chk.ob("C08.K3.R5:sync-only-build", "without the tokio feature the blocking entry points are the thread-based ones", no_tokio)
            batcher.nothing_under_lock(chk, P3, "C08.K3")
            batcher.containment(chk, P3, "C08.K3")
        except SystemExit as e:
            chk.fail("C08.K3", "emit_batcher without tokio compiles", str(e))
    if not getattr(chk, "_overlay", None):
        common.linear_types_rule(chk, P, "C08.R4:halves-are-linear", "the channel halves cannot be copied (dropping one copy would close the channel under the other)",
                                 {"emit_batcher::Sender": "Drop for Sender closes the channel: the first copy dropped stops the receiver while the others still send",
                                  "emit_batcher::Receiver": "two receivers would take batches concurrently and both clear is_in_batch"})
    from . import shapes
    shapes.block_in_place_polarity(chk, P, "C08.R5:block-in-place-polarity")
    shapes.trigger_starts_unset(chk, P, "C08.R4:trigger-starts-unset")
    shapes.retry_when_nonempty(chk, P, "C08.R2:retry-when-nonempty")
    shapes.remaining_time_shrinks(chk, P, "C08.R5:remaining-time-shrinks",
                                  ["emit_batcher::sync::Trigger::wait_timeout"] + ([] if getattr(chk, "_overlay", None) else ["<emit_otlp::client::OtlpInner as emit_core::emitter::Emitter>::blocking_flush"]))
    return chk
