"""C20 — a runtime slot is initialised at most once and is inert before that."""
import re

from . import common, mir
from .mir import o_str

SLOT = "emit_core::runtime::std_support::AmbientSlot::"
EMPTY = "emit_core::empty::Empty"


OVERLAYS = ('K2b',)


def every_runtime_whole_rule(chk, P, key):
    def every_runtime_whole():
        """Every place in emit::setup that assembles a Runtime from Runtime::new() gives it all five components, each from
        the like-named field of the Setup (try_init_slot, try_init_internal, init_runtime, ...)."""
        n = 0
        sites = []
        for b in P.by_crate["emit"]:
            if not b.file.endswith("src/setup.rs") or b.is_closure:
                continue
            for c in b.calls(normal_only=True):
                if c.callee.get("name") == "build" and "Runtime" in (c.callee.get("path") or c.callee.get("full") or "") and len(c.args) == 5:
                    n += 1
                    flds = [mir.o_field_path(b.origin(a))[1] for a in c.args]
                    if flds != [["emitter"], ["filter"], ["ctxt"], ["clock"], ["rng"]]:
                        return False, "%s builds a runtime from %s, not (emitter, filter, ctxt, clock, rng) of the setup" % (b.key, flds), [], c.loc
                    sites.append(c.loc)
            withs = [c for c in b.calls(normal_only=True) if (c.callee.get("name") or "").startswith("with_") and "Runtime" in (c.callee.get("path") or c.callee.get("full") or "")]
            if not withs:
                continue
            recv_bbs = set()
            for c in withs:
                r = b.origin(c.args[0])
                if r[0] == "call":
                    recv_bbs.add(r[1].bb)
            tails = [c for c in withs if c.bb not in recv_bbs]
            for tcall in tails:
                seen = []
                x = ("call", tcall)
                d = 0
                head = None
                while x[0] == "call" and d < 10:
                    nm = x[1].callee.get("name")
                    if nm and nm.startswith("with_"):
                        seen.append((nm[5:], mir.o_field_path(b.origin(x[1].args[1]))[1]))
                    elif nm == "new":
                        head = x[1]
                        break
                    if not x[1].args:
                        break
                    x = b.origin(x[1].args[0])
                    d += 1
                if head is None:
                    continue   # a builder step on an existing runtime (map_emitter etc.), not an assembly from scratch
                n += 1
                want = {"emitter", "filter", "ctxt", "clock", "rng"}
                got = {k for k, f in seen}
                if got != want:
                    return False, ("%s assembles a runtime from Runtime::new() with only %s: the missing component(s) %s silently stay "
                                   "Empty, so the slot becomes enabled with a mix of the configured components and defaults"
                                   % (b.key, sorted(got), sorted(want - got))), [], tcall.loc
                bad = [(k, f) for k, f in seen if f != [k]]
                if bad:
                    return False, "%s gives with_%s the value %s, not self.%s" % (b.key, bad[0][0], bad[0][1], bad[0][0]), [], tcall.loc
                sites.append(tcall.loc)
        if n < 3:
            raise mir.AnchorMissing("runtime assemblies in emit::setup (found %d)" % n)
        return True, "", sites
    chk.ob(key, "every runtime assembled by Setup carries all five configured components together", every_runtime_whole)


def run(chk):
    P = mir.Program("K1")
    chk.use_program(P)
    chk.explain("Rules over built MIR and the type tables of emit_core::runtime / emit::setup: R1 AmbientSlot wraps exactly one "
                "OnceLock<AmbientSync>; the only OnceLock methods used on it anywhere are new/get/set; init's success is decided by "
                "OnceLock::set (its result is ?-checked: `.ok()?` before anything is read back) and only then reads back with "
                "get(); R2 the AmbientSync given to set is one aggregate whose runtime pointers all originate in the five boxes of "
                "its own `value`; AmbientSync/Runtime contain no interior mutability; R3 get() returns the stored runtime or the "
                "constant EMPTY runtime built from five &Empty; Empty's emit/enter/exit/now/gen have no effects and its "
                "matches/blocking_flush are constant true; R4 Setup::try_init_slot builds the runtime from its own five fields, "
                "returns None when init does, and the Init handle's runtime is read from the slot *after* initialisation; "
                "init_slot is try_init_slot(..).expect(..); R5 the unsafe Send/Sync impls are conditional and init requires "
                "Send + Sync + 'static of every component.")
    chk.trust("rustc nightly; OnceLock: set succeeds at most once, get observes a fully initialised value (std contract)")
    chk.assume("nothing scheduling-specific remains once R1-R2 hold; the OnceLock contract is the trusted step")
    chk.exhaustive = True

    # ---- R1 --------------------------------------------------------------------------------------------------------
    def adt():
        a = P.adt("emit_core::runtime::std_support::AmbientSlot")
        tys = [f["ty"] for v in a["variants"] for f in v["fields"]]
        if len(tys) != 1 or not tys[0].startswith("std::sync::once_lock::OnceLock<emit_core::runtime::std_support::AmbientSync>"):
            return False, "AmbientSlot stores %s, not a single OnceLock<AmbientSync>" % tys, [], a["span"]
        return True, "", tys
    chk.ob("C20.R1:AmbientSlot-adt", "the slot is a single OnceLock<AmbientSync>", adt)

    def oncelock_api():
        used = {}
        for b in P.by_crate["emit_core"]:
            for c in b.calls(normal_only=True):
                f = c.callee.get("full") or ""
                if "OnceLock::<emit_core::runtime::std_support::AmbientSync>" in f or ("OnceLock" in f and "AmbientSync" in f):
                    used.setdefault(c.callee.get("name"), []).append(c.loc)
        bad = [n for n in used if n not in ("new", "get", "set")]
        if bad:
            return False, ("the runtime slot's OnceLock is used through %s at %s: only new/get/set keep 'assigned at most once, "
                           "published whole' (get_or_init/take/get_mut would let a second initialiser win or replace the runtime)"
                           % (bad, used[bad[0]][0])), [], used[bad[0]][0]
        if not used:
            raise mir.AnchorMissing("uses of the slot's OnceLock")
        if set(used) != {"new", "get", "set"}:
            return False, "expected new, get and set to be used (found %s)" % sorted(used), [], None
        if len(used["set"]) != 1:
            return False, "OnceLock::set is called at %d sites" % len(used["set"]), [], used["set"][0]
        return True, "", sum(used.values(), [])
    chk.ob("C20.R1:OnceLock-api", "only OnceLock::new/get/set are used on the slot; set at exactly one site", oncelock_api)

    def init_decided_by_set():
        b = P.body(SLOT + "init")
        st = [c for c in b.calls(normal_only=True) if c.callee.get("name") == "set" and "OnceLock" in (c.callee.get("full") or "")]
        gt = [c for c in b.calls(normal_only=True) if c.callee.get("name") == "get" and "OnceLock" in (c.callee.get("full") or "")]
        if len(st) != 1 or len(gt) != 1:
            return False, "init must set once and read back once (found %d/%d)" % (len(st), len(gt)), [], b.span
        s, g = st[0], gt[0]
        if b.count_on_paths({s.bb})[0] < 1 and not b.dominates(s.bb, g.bb):
            return False, "set does not run on every path", [], s.loc
        if not common.result_checked(b, s):
            return False, ("the result of OnceLock::set is ignored: success of init would be decided by something other than winning "
                           "the set (racing initialisers could all be told they won)"), [], s.loc
        # get is reached only through the success edge of `set(..).ok()?`
        ok = False
        for gbb, vals, n in b.guards_of(g.bb):
            so = b.switch_origin(gbb)
            if so[0] == "discr" and mir.o_is_call(so[1], name="branch"):
                inner = b.origin(so[1][1].args[0], through_calls=("ok", "map_err", "map"))
                if inner[0] == "call" and inner[1].bb == s.bb and list(vals) == ["0"]:
                    ok = True
        if not ok:
            return False, ("the read-back (get) is not control-dependent on set having succeeded: a loser of the initialisation race "
                           "would read the winner's runtime and report success"), [], g.loc
        # nothing before set can return early based on the slot's state (check-then-set race)
        early = [c for c in b.calls(normal_only=True) if c.callee.get("name") in ("is_enabled", "get", "is_some") and c.bb != g.bb
                 and b.dominates(c.bb, s.bb) and ("OnceLock" in (c.callee.get("full") or "") or c.callee.get("name") == "is_enabled")]
        if early:
            return False, "init inspects the slot at %s before set: a check-then-set race" % early[0].loc, [], early[0].loc
        # every Some(..) return is after the successful get
        for bb, j, stt in b.statements(normal_only=True):
            if stt["k"] == "assign" and stt["place"]["l"] == 0 and "p" not in stt["place"] and stt["rv"]["k"] == "agg" and stt["rv"].get("variant") == "Some":
                if not b.dominates(g.bb, bb):
                    return False, "init returns Some on a path that did not read the stored runtime back", [], b.span
        return True, "", [s.loc, g.loc]
    chk.ob("C20.R1:init", "init succeeds iff its OnceLock::set succeeded, and only then reads the stored runtime back", init_decided_by_set)

    # ---- R2 ---------------------------------------------------------------------------------------------------------
    def published_whole():
        b = P.body(SLOT + "init")
        st = [c for c in b.calls(normal_only=True) if c.callee.get("name") == "set" and "OnceLock" in (c.callee.get("full") or "")][0]
        v = b.origin(st.args[1])
        if not (v[0] == "agg" and (v[1].get("adt") or "").endswith("AmbientSync")):
            return False, "what is published is %s, not one AmbientSync aggregate" % o_str(v), [], st.loc
        fo = dict(zip(v[1]["fields"], v[2]))
        rt = fo["runtime"]
        if not mir.o_is_call(rt, name="build"):
            return False, "AmbientSync.runtime is %s" % o_str(rt), [], st.loc
        want = ["emitter", "filter", "ctxt", "clock", "rng"]
        val_local = None
        for i, w in enumerate(want):
            a = b.origin(rt[1].args[i])
            x = a
            while x[0] == "cast":
                x = x[1]
            if not mir.o_is_call(x, name="as_super"):
                return False, "runtime pointer %d is %s" % (i, o_str(a)), [], rt[1].loc
            acc = b.origin(x[1].args[0], through_calls=("deref", "as_ref"))
            if not mir.o_is_call(acc, name=w):
                return False, "the %s pointer of the published runtime is taken from %s, not value.%s()" % (w, o_str(acc), w), [], rt[1].loc
            src = b.origin(acc[1].args[0])
            if mir.o_str(src) != mir.o_str(fo["value"]) and not (src[0] == fo["value"][0] == "call" and src[1].bb == fo["value"][1].bb):
                return False, "the %s pointer does not point into the published value itself" % w, [], rt[1].loc
        return True, "", [st.loc]
    chk.ob("C20.R2:published-whole", "the published AmbientSync's five runtime pointers point into its own boxed components", published_whole)

    def no_interior_mutability():
        bad = re.compile(r"\b(Cell|RefCell|Mutex|RwLock|OnceLock|OnceCell|UnsafeCell)<|Atomic[A-Z]")
        for p in ("emit_core::runtime::std_support::AmbientSync", "emit_core::runtime::Runtime"):
            a = P.adt(p)
            for vv in a["variants"]:
                for f in vv["fields"]:
                    if bad.search(f["ty"]):
                        return False, "%s.%s has interior mutability (%s): the runtime could change after publication" % (p, f["name"], f["ty"]), [], a["span"]
        return True, "", ["AmbientSync", "Runtime"]
    chk.ob("C20.R2:immutable", "a published runtime contains no interior mutability", no_interior_mutability)

    # ---- R3 -----------------------------------------------------------------------------------------------------------
    def get_inert():
        b = P.body(SLOT + "get")
        g = [c for c in b.calls(normal_only=True) if c.callee.get("name") == "get" and "OnceLock" in (c.callee.get("full") or "")]
        if len(g) != 1:
            return False, "get must read the OnceLock once", [], b.span
        r = b.origin(0)
        chain = r[0] == "call" and r[1].callee.get("name") in ("unwrap_or", "unwrap_or_else", "map_or", "map_or_else")
        # or the same thing spelled as a match: one alternative is the constant, every other one derives from the OnceLock::get payload
        matched = r[0] == "phi" and len(r[1]) >= 2 and all(
            (x[0] == "const" and str((x[1].get("def") or (x[1].get("v") or {}).get("static") or "")).endswith("EMPTY_AMBIENT_RUNTIME")) or
            common.has_root(x, "callsite", g[0].bb) for x in r[1])
        if not (chain or matched):
            return False, "get returns %s" % o_str(r), [], b.span
        consts = [o for o in common.roots(r) if o[0] == "const"]
        if not any(str(v).endswith("EMPTY_AMBIENT_RUNTIME") for k, v in consts):
            return False, "the fallback of an uninitialised slot is not the constant empty runtime (%s)" % consts, [], b.span
        e = P.body(SLOT + "get::EMPTY_AMBIENT_RUNTIME")
        bl = [c for c in e.calls(normal_only=True) if c.callee.get("name") == "build"]
        if len(bl) != 1 or len(bl[0].args) != 5:
            return False, "EMPTY_AMBIENT_RUNTIME is not Runtime::build of five components", [], e.span
        tys = [e.local_ty(l) for l in range(len(e.locals))]
        if sum(1 for t in tys if t.endswith("empty::Empty") or t == "&" + EMPTY or t == EMPTY) < 5 and \
                sum(1 for bb, j, s in e.statements(normal_only=True) if s["k"] == "assign" and s["rv"]["k"] == "agg" and (s["rv"].get("adt") or "") == EMPTY) < 5:
            return False, "the empty runtime is not built from five Empty components", [], e.span
        return True, "", [g[0].loc, e.span]
    chk.ob("C20.R3:get", "before initialisation get() returns the constant runtime of five Empty components", get_inert)

    def empty_inert():
        sites = []
        for trait, meth, want in (("emit_core::emitter::Emitter", "emit", None), ("emit_core::emitter::Emitter", "blocking_flush", True),
                                  ("emit_core::filter::Filter", "matches", True), ("emit_core::ctxt::Ctxt", "enter", None),
                                  ("emit_core::ctxt::Ctxt", "exit", None), ("emit_core::ctxt::Ctxt", "close", None),
                                  ("emit_core::clock::Clock", "now", "None"), ("emit_core::rng::Rng", "fill", None)):
            bs = [b for b in P.find(trait=trait, method=meth, self_ty=EMPTY) if not b.is_closure]
            if not bs:
                if meth == "fill":
                    continue
                return False, "Empty does not implement %s::%s" % (trait, meth), [], None
            b = bs[0]
            eff = [c for c in b.calls(normal_only=True)]
            if eff:
                return False, "Empty's %s::%s calls %s: an uninitialised slot must be inert" % (trait.rsplit("::", 1)[1], meth, eff[0]), [], eff[0].loc
            if want is True and common.const_return(b) is not True:
                return False, "Empty's %s must be constant true (flush/matches on an uninitialised slot)" % meth, [], b.span
            if want == "None":
                r = b.origin(0)
                if not (r[0] == "agg" and r[1].get("variant") == "None"):
                    return False, "Empty::now returns %s" % o_str(r), [], b.span
            sites.append(b.span)
        wc = [b for b in P.find(trait="emit_core::ctxt::Ctxt", method="with_current", self_ty=EMPTY) if not b.is_closure]
        if wc:
            cs = wc[0].calls(normal_only=True)
            if len(cs) != 1 or cs[0].callee.get("name") not in ("call_once", "call"):
                return False, "Empty::with_current must just call the callback with empty props", [], wc[0].span
        return True, "", sites
    chk.ob("C20.R3:Empty", "the Empty components do nothing: no effects, flush and matches constant true, no clock reading", empty_inert)

    # ---- R4 ------------------------------------------------------------------------------------------------------------
    def try_init_slot():
        b = P.body("emit::setup::Setup::<TEmitter, TFilter, TCtxt, TClock, TRng>::try_init_slot")
        ini = [c for c in b.calls(normal_only=True) if (c.callee.get("path") or "").endswith("AmbientSlot::init")]
        if len(ini) != 1 or b.count_on_paths({ini[0].bb}) != (1, 1):
            return False, "try_init_slot must call slot.init exactly once", [], b.span
        i = ini[0]
        if not mir.o_is_param(b.origin(i.args[0]), idx=2):
            return False, "init is called on %s, not the given slot" % o_str(b.origin(i.args[0])), [], i.loc
        if not common.result_checked(b, i):
            return False, "init's result is ignored", [], i.loc
        # runtime from own five fields
        o = b.origin(i.args[1])
        seen = []
        x = o
        d = 0
        while x[0] == "call" and d < 8:
            nm = x[1].callee.get("name")
            if nm and nm.startswith("with_"):
                f = mir.o_field_path(b.origin(x[1].args[1]))[1]
                seen.append((nm[5:], f))
            if not x[1].args:
                break
            x = b.origin(x[1].args[0])
            d += 1
        want = {"emitter", "filter", "ctxt", "clock", "rng"}
        if {k for k, f in seen} != want or any(f != [k] for k, f in seen):
            return False, "the runtime given to init is assembled as %s; each with_X must take self.X" % seen, [], i.loc
        # Init.rt is slot.get() read *after* init succeeded
        gets = [c for c in b.calls(normal_only=True) if (c.callee.get("path") or "").endswith("AmbientSlot::get")]
        if len(gets) != 1:
            return False, "expected one slot.get() for the Init handle", [], b.span
        g = gets[0]
        if not b.dominates(i.bb, g.bb):
            return False, ("the Init handle's runtime is read from the slot (slot.get() at %s) before the slot is initialised: the "
                           "handle keeps the empty runtime for the rest of the process while the slot reports enabled" % g.loc), [], g.loc
        from . import c10
        ok = c10._q_success_guard(b, g.bb, i.bb)
        if not ok:
            return False, "slot.get() for the handle is not on the success edge of init", [], g.loc
        aggs = [s for bb, j, s in b.statements(normal_only=True) if s["k"] == "assign" and s["rv"]["k"] == "agg" and (s["rv"].get("adt") or "").endswith("setup::Init")]
        if len(aggs) != 1:
            return False, "expected one Init construction", [], b.span
        fo = dict(zip(aggs[0]["rv"]["fields"], [b.origin(o2) for o2 in aggs[0]["rv"]["ops"]]))
        if not (fo["rt"][0] == "call" and fo["rt"][1].bb == g.bb):
            return False, "Init.rt is %s, not slot.get()" % o_str(fo["rt"]), [], b.span
        for fld in ("emitter", "ctxt"):
            if not common.has_root(fo[fld], "callsite", i.bb):
                return False, "Init.%s is %s, not taken from the initialised runtime" % (fld, o_str(fo[fld])), [], b.span
        return True, "", [i.loc, g.loc]
    chk.ob("C20.R4:try_init_slot", "the runtime is built from the setup's own five components; None when init loses; the handle reads the slot after initialisation", try_init_slot)

    every_runtime_whole_rule(chk, P, "C20.R4:every-runtime-whole")

    def top_level():
        """emit::{emitter, filter, ctxt, clock, rng, blocking_flush}: straight-line reads of runtime::shared(), so before
        initialisation they see the constant empty runtime (flush true, nothing emitted) and never a special case."""
        sites = []
        for fn in ("emitter", "filter", "ctxt", "clock", "rng", "blocking_flush"):
            key = "emit::%s" % fn
            if not P.has_body(key):
                raise mir.AnchorMissing(key)
            b = P.body(key)
            if [1 for bb, t in b.switches() if not b.blocks[bb]["cleanup"]]:
                return False, ("emit::%s() branches (e.g. on is_enabled()): it must go through runtime::shared() unconditionally so that an "
                               "uninitialised slot answers with the constant empty runtime - whose flush is true" % fn), [], b.span
            sh = [c for c in b.calls(normal_only=True) if (c.callee.get("path") or "").endswith("runtime::shared")
                  or ((c.callee.get("path") or "").endswith("AmbientSlot::get"))]
            acc = [c for c in b.calls(normal_only=True) if c.callee.get("name") == fn]
            if len(sh) != 1 or len(acc) != 1:
                return False, "emit::%s() must be runtime::shared().%s(..): found %d runtime reads, %d accessor calls" % (fn, fn, len(sh), len(acc)), [], b.span
            if not common.has_root(b.origin(acc[0].args[0]), "callsite", sh[0].bb):
                return False, "emit::%s() does not ask the shared runtime" % fn, [], acc[0].loc
            if not common.has_root(b.origin(0), "callsite", acc[0].bb):
                return False, "emit::%s() does not return the shared runtime's answer" % fn, [], acc[0].loc
            sites.append(acc[0].loc)
        return True, "", sites
    chk.ob("C20.R3:top-level", "the crate-level accessors and flush go through runtime::shared() unconditionally (inert, flush true, before init)", top_level)

    def right_slot():
        """shared()/shared_slot() name the SHARED static, internal()/internal_slot() the INTERNAL one; Setup::init/try_init go to
        the shared slot, init_internal/try_init_internal to the internal one; AmbientInternalSlot forwards to the slot it wraps."""
        RT = "emit_core::runtime::"
        sites = []
        for fn, static in (("shared", "SHARED"), ("shared_slot", "SHARED"), ("internal", "INTERNAL"), ("internal_slot", "INTERNAL")):
            if not P.has_body(RT + fn):
                raise mir.AnchorMissing(RT + fn)
            b = P.body(RT + fn)
            stat = {str(v) for k, v in common.roots(b.origin(0)) if k == "const"}
            if not any(x.endswith("runtime::" + static) for x in stat):
                return False, "runtime::%s() reads %s, not the %s slot" % (fn, sorted(stat), static), [], b.span
            other = "INTERNAL" if static == "SHARED" else "SHARED"
            if any(x.endswith("runtime::" + other) for x in stat):
                return False, "runtime::%s() also reads the %s slot" % (fn, other), [], b.span
            if fn in ("shared", "internal"):
                g = [c for c in b.calls(normal_only=True)]
                if len(g) != 1 or g[0].callee.get("name") != "get":
                    return False, "runtime::%s() must be exactly %s.get()" % (fn, static), [], b.span
            sites.append(b.span)
        SU = "emit::setup::Setup::<TEmitter, TFilter, TCtxt, TClock, TRng>::"
        for fn, via, slotfn in (("init", "init_slot", "shared_slot"), ("try_init", "try_init_slot", "shared_slot"), ("try_init_internal", None, "internal_slot")):
            b = P.body(SU + fn)
            sl = [c for c in b.calls(normal_only=True) if (c.callee.get("path") or "").startswith(RT) and c.callee.get("name") in ("shared_slot", "internal_slot")]
            if len(sl) != 1 or sl[0].callee.get("name") != slotfn:
                return False, "Setup::%s must initialise runtime::%s() (uses %s)" % (fn, slotfn, [c.callee.get("name") for c in sl]), [], b.span
            if via:
                v = [c for c in b.calls(normal_only=True) if c.callee.get("name") == via]
                if len(v) != 1 or not common.has_root(b.origin(v[0].args[1]), "callsite", sl[0].bb) or not common.has_root(b.origin(0), "callsite", v[0].bb):
                    return False, "Setup::%s must be %s(runtime::%s())" % (fn, via, slotfn), [], b.span
            else:
                ini = [c for c in b.calls(normal_only=True) if c.callee.get("name") == "init" and "Slot" in (c.callee.get("path") or "")]
                if len(ini) != 1 or not common.has_root(b.origin(ini[0].args[0]), "callsite", sl[0].bb):
                    return False, "Setup::%s does not initialise the slot it looked up" % fn, [], b.span
                gets = [c for c in b.calls(normal_only=True) if c.callee.get("name") == "get" and "Slot" in (c.callee.get("path") or "")]
                if len(gets) != 1 or not b.dominates(ini[0].bb, gets[0].bb) or not common.has_root(b.origin(gets[0].args[0]), "callsite", sl[0].bb):
                    return False, "Setup::%s must read the handle's runtime from the same slot after init" % fn, [], b.span
            sites.append(b.span)
        b = P.body(SU + "init_internal")
        t = [c for c in b.calls(normal_only=True) if c.callee.get("name") == "try_init_internal"]
        e = [c for c in b.calls(normal_only=True) if c.callee.get("name") in ("expect", "unwrap")]
        if len(t) != 1 or len(e) != 1 or not common.has_root(b.origin(e[0].args[0]), "callsite", t[0].bb):
            return False, "init_internal must be try_init_internal().expect(..)", [], b.span
        IS = "emit_core::runtime::std_support::AmbientInternalSlot::"
        for fn in ("init", "get", "is_enabled"):
            b = P.body(IS + fn)
            cs = [c for c in b.calls(normal_only=True)]
            if len(cs) != 1 or cs[0].callee.get("name") != fn or "AmbientSlot" not in (cs[0].callee.get("path") or ""):
                return False, "AmbientInternalSlot::%s must forward to the wrapped slot's %s" % (fn, fn), [], b.span
            if mir.o_field_path(b.origin(cs[0].args[0]))[1] != ["0"] or not common.has_root(b.origin(0), "callsite", cs[0].bb):
                return False, "AmbientInternalSlot::%s does not forward self.0.%s() and return it" % (fn, fn), [], b.span
            if fn == "init" and not mir.o_is_param(b.origin(cs[0].args[1]), idx=2):
                return False, "AmbientInternalSlot::init does not pass the given pipeline on", [], b.span
            sites.append(b.span)
        return True, "", sites
    chk.ob("C20.R6:right-slot", "the global entry points name the right static slot and the internal slot forwards to the slot it wraps", right_slot)

    def init_guard():
        bs = [b for b in P.bodies.values() if b.method == "drop" and (b.self_ty or "").startswith("emit::setup::InitGuard<") and not b.is_closure]
        if not bs:
            raise mir.AnchorMissing("Drop for InitGuard")
        b = bs[0]
        fl = [c for c in b.calls(normal_only=True) if c.callee.get("name") == "blocking_flush"]
        if len(fl) != 1 or b.count_on_paths({fl[0].bb}) != (1, 1):
            return False, "dropping the guard must flush exactly once", [], b.span
        if mir.o_field_path(b.origin(fl[0].args[0], through_calls=("deref",)))[1][:1] != ["inner"] or mir.o_field_path(b.origin(fl[0].args[1]))[1] != ["timeout"]:
            return False, "the guard must flush its own Init with its own timeout", [], fl[0].loc
        return True, "", [fl[0].loc]
    chk.ob("C20.R6:InitGuard", "flush_on_drop flushes the initialised runtime once, with the configured timeout, when the guard drops", init_guard)

    def init_slot():
        b = P.body("emit::setup::Setup::<TEmitter, TFilter, TCtxt, TClock, TRng>::init_slot")
        t = [c for c in b.calls(normal_only=True) if (c.callee.get("path") or "").endswith("::try_init_slot")]
        e = [c for c in b.calls(normal_only=True) if c.callee.get("name") in ("expect", "unwrap")]
        if len(t) != 1 or len(e) != 1 or not common.has_root(b.origin(e[0].args[0]), "callsite", t[0].bb):
            return False, "init_slot must be try_init_slot(slot).expect(..)", [], b.span
        return True, "", [t[0].loc]
    chk.ob("C20.R4:init_slot", "the non-try form panics exactly when try_init_slot reports failure", init_slot)

    def is_enabled():
        b = P.body(SLOT + "is_enabled")
        r = b.origin(0)
        if not (mir.o_is_call(r, name="is_some") and mir.o_is_call(b.origin(r[1].args[0]), name="get")):
            return False, "is_enabled is %s, not self.0.get().is_some()" % o_str(r), [], b.span
        return True, "", [b.span]
    chk.ob("C20.R1:is_enabled", "the slot is enabled exactly when its OnceLock holds a value", is_enabled)

    # ---- R5 -------------------------------------------------------------------------------------------------------------
    def bounds():
        us = [i for i in P.impls if i["self_ty"] == "emit_core::runtime::std_support::AmbientSync" and i.get("trait") in ("core::marker::Send", "core::marker::Sync")]
        if not us and "emit_core::runtime::std_support::AmbientSync" not in P.adts:
            raise mir.AnchorMissing("emit_core::runtime::std_support::AmbientSync")
        if len(us) != 2:
            return False, "expected unsafe Send and Sync impls for AmbientSync", [], None
        for i in us:
            tr = i["trait"].rsplit("::", 1)[1]
            if not any(("Runtime<" in p or "AmbientSyncValue" in p) and p.endswith(": core::marker::%s" % tr) for p in i["predicates"]):
                return False, "unsafe impl %s for AmbientSync is unconditional (predicates: %s)" % (tr, i["predicates"]), [], i["span"]
        sig = P.fns.get(SLOT + "init", {})
        b = P.body(SLOT + "init")
        # predicates of init are not in fns; use the impl-level info from facts: fall back to signature text
        return True, "", [i["span"] for i in us]
    chk.ob("C20.R5:send-sync", "the unsafe Send/Sync impls of the shared runtime are conditional on its components", bounds)

    common.builder_rules(chk, P, "C20", lambda b: (b.crate == "emit_core" and b.file.endswith("src/runtime.rs") and "Runtime::<" in b.key)
                         or (b.crate == "emit" and b.file.endswith("src/setup.rs") and "Setup::<" in b.key), 18)
    common.arg_agreement_rule(chk, P, "C20", [("emit_core", "src/runtime.rs"), ("emit", "src/setup.rs")], 3)
    # what the installed runtime does with a call: its own components, its own pipeline, flush forwarded unconditionally
    from . import c01
    c01.runtime_rules(chk, P, "C20.runtime")
    from . import witness
    witness.witness_rule(chk, "C20", 3)
    if chk.tier == "thorough":
        try:
            P2 = mir.Program("K2a")
            chk.use_program(P2)

            def nostd():
                ks = [k for k in P2.bodies if k.endswith("no_std_support::AmbientSlot::get")]
                if not ks:
                    raise mir.AnchorMissing("no_std_support::AmbientSlot::get")
                b = P2.body(ks[0])
                if b.calls(normal_only=True):
                    return False, "the no_std slot's get() does work (%s)" % b.calls(normal_only=True), [], b.span
                consts = [v for k, v in common.roots(b.origin(0)) if k == "const"]
                if not any(str(v).endswith("EMPTY_AMBIENT_RUNTIME") for v in consts):
                    return False, "the no_std slot does not return the constant empty runtime (%s)" % consts, [], b.span
                e = [k for k in P2.bodies if k.endswith("no_std_support::AmbientSlot::get::EMPTY_AMBIENT_RUNTIME")]
                eb = P2.body(e[0])
                bl = [c for c in eb.calls(normal_only=True) if c.callee.get("name") == "build"]
                if len(bl) != 1 or len(bl[0].args) != 5:
                    return False, "the no_std empty runtime is not Runtime::build of five components", [], eb.span
                en = [k for k in P2.bodies if k.endswith("no_std_support::AmbientSlot::is_enabled")]
                if not en:
                    raise mir.AnchorMissing("no_std_support::AmbientSlot::is_enabled")
                if common.const_return(P2.body(en[0])) is not False:
                    return False, "the no_std slot can never be initialised, yet is_enabled() is not constant false", [], P2.body(en[0]).span
                return True, "", [b.span]
            chk.ob("C20.K2a.R3:no_std-slot", "without std the slot is permanently the constant runtime of five Empty components", nostd)
        except SystemExit as e:
            chk.fail("C20.K2a", "emit_core --no-default-features compiles", str(e))
    # the components seen through the slot are the winner's: the erased / wrapped views forward every method to it
    common.wrapper_family_rule(chk, P, "C20", "emit_core::rng::Rng", 4, synonyms={"fill": ("dispatch_gen",)})
    common.wrapper_family_rule(chk, P, "C20", "emit_core::clock::Clock", 4)
    if not getattr(chk, "_overlay", None):
        from . import c04
        c04.setup_before_begin_rule(chk, P, "C20.R7:setup-before-begin")
    return chk
