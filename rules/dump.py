"""python3 -m rules.dump [-c CONFIG] <key-regex> : pretty-print bodies (debug aid)."""
import re
import sys

from . import mir


def pl(p):
    s = "_%d" % p["l"]
    for pr in p.get("p", ()):
        if pr == "*":
            s = "(*%s)" % s
        elif isinstance(pr, str):
            s = "%s as %s" % (s, pr)
        elif "f" in pr:
            s = "%s.%s" % (s, pr.get("n", pr["f"]))
        elif "d" in pr:
            s = "(%s as %s)" % (s, pr["d"])
        elif "idx" in pr:
            s = "%s[_%d]" % (s, pr["idx"])
        elif "cidx" in pr:
            s = "%s[%s%d]" % (s, "-" if pr["from_end"] else "", pr["cidx"])
        else:
            s = "%s[%s]" % (s, pr)
    return s


def op(o):
    if "c" in o:
        return pl(o["c"])
    if "m" in o:
        return "move " + pl(o["m"])
    if "k" in o:
        k = o["k"]
        if "v" in k:
            return "const %s" % (k["v"],)
        return "const<%s>" % (k.get("def") or k.get("fn_args") or k.get("ty"))
    return str(o)


def rv(r):
    k = r["k"]
    if k == "use":
        return op(r["op"])
    if k == "ref":
        return "&%s%s" % ("mut " if r["bk"] == "mut" else "", pl(r["place"]))
    if k == "rawptr":
        return "&raw " + pl(r["place"])
    if k == "cast":
        return "%s as %s (%s)" % (op(r["op"]), r["ty"], r["ck"])
    if k == "binop":
        return "%s(%s, %s)" % (r["op"], op(r["a"]), op(r["b"]))
    if k == "unop":
        return "%s(%s)" % (r["op"], op(r["a"]))
    if k == "discr":
        return "discriminant(%s)" % pl(r["place"])
    if k == "agg":
        nm = r.get("adt_args") or r.get("def") or r["ak"]
        if r.get("variant"):
            nm += "::" + r["variant"]
        fs = r.get("fields")
        if fs and len(fs) == len(r["ops"]):
            return "%s{%s}" % (nm, ", ".join("%s: %s" % (f, op(o)) for f, o in zip(fs, r["ops"])))
        return "%s(%s)" % (nm, ", ".join(op(o) for o in r["ops"]))
    if k == "tlref":
        return "tls " + r["def"]
    if k == "repeat":
        return "[%s; %s]" % (op(r["op"]), r["n"])
    return str(r)


def dump(b, stmts=True):
    print("=" * 100)
    print("%s  [%s %s] argc=%d %s" % (b.key, b.crate, b.kind, b.argc, b.span))
    if b.trait:
        print("  impl %s for %s :: %s" % (b.trait, b.self_ty, b.method))
    for i, l in enumerate(b.locals):
        if l.get("name") or i <= b.argc:
            print("  let _%d: %s  // %s" % (i, l["ty"], l.get("name", "")))
    for d in b.raw.get("dbg", ()):
        print("  debug %s => %s" % (d["name"], pl(d["place"])))
    for i, blk in enumerate(b.blocks):
        print("  bb%d%s:" % (i, " (cleanup)" if blk["cleanup"] else ""))
        if stmts:
            for s in blk["stmts"]:
                if s["k"] == "assign":
                    print("      %s = %s%s" % (pl(s["place"]), rv(s["rv"]), "  // expn" if s.get("expn") else ""))
                elif s["k"] == "setdiscr":
                    print("      discriminant(%s) = %d" % (pl(s["place"]), s["variant"]))
        t = blk["term"]
        k = t["k"]
        if k == "call":
            c = t["callee"]
            nm = c.get("full") or ("indirect " + op(c["op"]))
            extra = ""
            if c.get("resolved"):
                extra = "  [-> %s]" % c["resolved"]
            print("      %s = %s(%s) -> bb%s unwind %s  // L%s%s%s" % (
                pl(t["dest"]), nm, ", ".join(op(a) for a in t["args"]), t.get("t"), t.get("unwind"), t.get("line"),
                " expn" if t.get("expn") else "", extra))
        elif k == "switch":
            print("      switch(%s: %s) %s otherwise bb%d  // L%s" % (
                op(t["discr"]), t["discr_ty"], " ".join("%s->bb%d" % (v, n) for v, n in t["targets"]), t["otherwise"], t.get("line")))
        elif k == "drop":
            print("      drop(%s) -> bb%d unwind %s" % (pl(t["place"]), t["t"], t.get("unwind")))
        elif k == "assert":
            print("      assert(%s == %s, %s) -> bb%d  // L%s" % (op(t["cond"]), t["expected"], t["msg"]["k"], t["t"], t.get("line")))
        elif k == "yield":
            print("      yield(%s) -> bb%d drop %s" % (op(t["value"]), t["t"], t.get("drop")))
        elif k in ("goto", "falseunwind"):
            print("      %s -> bb%d" % (k, t["t"]))
        elif k == "falseedge":
            print("      falseedge -> bb%d (imaginary bb%d)" % (t["t"], t["imaginary"]))
        else:
            print("      %s" % k)


if __name__ == "__main__":
    args = sys.argv[1:]
    cfg = "K1"
    if args and args[0] == "-c":
        cfg = args[1]
        args = args[2:]
    P = mir.Program(cfg)
    pat = args[0]
    keys_only = len(args) > 1 and args[1] == "-k"
    for k in sorted(P.bodies):
        if re.search(pat, k):
            if keys_only:
                print(k)
            else:
                dump(P.bodies[k])
