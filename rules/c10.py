"""C10 — rolling files: acknowledged events are durable and no record is ever mangled.

Decided (structure of the worker, not the OS): flush + sync_all dominate every Ok return and the active
file is only kept after a successful sync; the cursor advances only after a successful write and the
failed batch is handed back unadvanced; the recovery flag brackets the payload write; payload writes use
write_all; files are opened create_new/append, the directory is synced after create; the separator is
appended at emit time; events skipped by the cursor are synced before the worker returns (known finding)."""
import re

from . import common, mir
from .mir import o_str

WORKER = "emit_file::Worker::on_batch"


def main_closure(P):
    """The closure the #[span] expansion runs the function body in (argument of Frame::call)."""
    b = P.body(WORKER)
    cs = b.calls_to(path_re=r"^emit::frame::Frame::<.*>::call$")
    if len(cs) != 1:
        # not span-instrumented any more: the function body itself
        return b
    o = b.origin(cs[0].args[1])
    if o[0] != "agg" or o[1].get("ak") != "closure":
        raise mir.AnchorMissing("the body closure of Worker::on_batch")
    return P.body(o[1]["def"])


def _outcome_of(cb, o, call_bb):
    o = mir.o_root(o) if o[0] in ("ref", "deref", "copy") else o
    if o[0] == "call" and o[1].bb == call_bb:
        return o[1]
    if o[0] == "call" and o[1].callee.get("name") in ("map_err", "map", "into", "as_ref", "as_mut", "ok", "branch") and o[1].args:
        return _outcome_of(cb, cb.origin(o[1].args[0]), call_bb)
    if o[0] == "phi":
        # a merged outcome (the result of a spliced helper: `a()?; b()`): it can only be a success where it is the call's own result if every
        # other way into it is an error value - the residual of an earlier `?`, or an Err / None built in place
        hit, rest_fail = None, True
        for y in o[1]:
            c = _outcome_of(cb, y, call_bb)
            if c is not None:
                hit = c
            elif (y[0] == "call" and y[1].callee.get("name") == "from_residual") or (y[0] == "agg" and y[1].get("variant") in ("Err", "None")):
                continue
            else:
                rest_fail = False
        return hit if rest_fail else None
    return None


def _q_success_guard(cb, target_bb, call_bb):
    """target_bb is reached only when the call at call_bb succeeded: through the Continue edge of `?` applied to (a map_err of) it, the
    Ok/Some arm of a match or `if let` on it, the fall-through of `if let Err(..)/None = .. { return }`, or the true/false edge of
    is_ok()/is_some() / is_err()/is_none() on it."""
    def from_call(o):
        return _outcome_of(cb, o, call_bb)

    def only_success(vals, term, fail):
        vals = [str(v) for v in vals]
        if str(fail) in vals:
            return False
        if "otherwise" in vals:
            # the failure discriminant must be routed elsewhere explicitly
            return any(str(v) == str(fail) for v, n in term["targets"])
        return True
    for gbb, vals, n in cb.guards_of(target_bb):
        term = cb.blocks[gbb]["term"]
        so = cb.switch_origin(gbb)
        if so[0] == "discr":
            src = so[1]
            if mir.o_is_call(src, name="branch"):
                c = from_call(cb.origin(src[1].args[0]))
                if c is not None and only_success(vals, term, 1):
                    return True
                continue
            c = from_call(src)
            if c is not None and c.dest is not None and "p" not in c.dest:
                ty = cb.local_ty(c.dest["l"])
                fail = 0 if re.match(r"(core::option::)?Option<", ty) else 1
                if only_success(vals, term, fail):
                    return True
            continue
        o, pos = mir.norm_bool(so)
        if o[0] == "call" and o[1].callee.get("name") in ("is_ok", "is_some", "is_err", "is_none") and o[1].args:
            c = from_call(mir.o_root(cb.origin(o[1].args[0])))
            if c is None:
                continue
            good = o[1].callee.get("name") in ("is_ok", "is_some")
            taken = [str(v) for v in vals] != ["0"] and "0" not in [str(v) for v in vals]
            if [str(v) for v in vals] == ["0"]:
                edge = False
            elif "0" in [str(v) for v in vals]:
                continue
            else:
                edge = True
            if (edge == pos) == good:
                return True
    return False


def rewind_rule(chk, P, prefix):
    """a rewound batch is the whole batch again (cursor, byte count, buffers)"""
    def rewind():
        if not P.has_body("emit_file::EventBatch::rewind"):
            return True, "no rewind (remainder-only retry): R8 then requires a sync on the error path", [P.body("emit_file::EventBatch::advance").span]
        b = P.body("emit_file::EventBatch::rewind")
        writes = {}
        for bb, j, s in b.statements(normal_only=True):
            if s["k"] == "assign" and "p" in s["place"]:
                names = [p.get("n") for p in s["place"]["p"] if isinstance(p, dict) and "f" in p]
                if names and names[-1] in ("index", "remaining_bytes"):
                    writes[names[-1]] = b.origin(s["rv"]["op"]) if s["rv"]["k"] == "use" else ("unknown",)
        if mir.o_const_value(writes.get("index", ("unknown",))) != 0:
            return False, "rewind must reset the cursor to 0", [], b.span
        rem = writes.get("remaining_bytes")
        if rem is None or not mir.o_is_call(rem, name="sum"):
            return False, "rewind must recompute remaining_bytes as the sum of all buffer lengths (found %s)" % (o_str(rem) if rem else None), [], b.span
        chain = b.origin(rem[1].args[0], through_calls=("map", "iter", "deref", "copied", "cloned"))
        if mir.o_field_path(chain)[1][-1:] != ["bufs"]:
            return False, "remaining_bytes is summed over %s" % o_str(chain), [], b.span
        # and advance must keep the buffers (not take them) for a rewind to re-send them
        a = P.body("emit_file::EventBatch::advance")
        if a.calls_to(path="core::mem::take") or a.calls_to(path="core::mem::replace"):
            return False, "advance() takes buffers out of the batch, so a rewound batch would re-send empty records", [], a.span
        return True, "", [b.span]
    chk.ob("%s:EventBatch::rewind" % prefix, "a rewound batch is the whole batch again: cursor 0, byte count recomputed, buffers kept by advance()", rewind)


def std_adapter_rule(chk, P, prefix):
    """The leaf adapters over std::fs do what their names say: each method of `impl Filesystem for StdFilesystem`, `impl File for StdFile`
    and `impl Write for StdFile` reaches the std operation of the table below on the right receiver (the wrapped file / the path
    parameter) and returns its result.  The worker's accounting (size limit on reuse, durability) rests on them."""
    TABLE = [
        # (trait, self type, method, required std callee names (all), forbidden callee names)
        ("emit_file::Filesystem", "emit_file::StdFilesystem", "create_dir_all", ["create_dir_all"], []),
        ("emit_file::Filesystem", "emit_file::StdFilesystem", "read_dir_files", ["read_dir"], []),
        ("emit_file::Filesystem", "emit_file::StdFilesystem", "remove_file", ["remove_file"], ["remove_dir_all", "remove_dir"]),
        ("emit_file::File", "emit_file::StdFile", "len", ["metadata", "len"], ["stream_position", "seek", "rewind"]),
        ("emit_file::File", "emit_file::StdFile", "sync_all", ["sync_all"], ["sync_data", "flush"]),
        ("std::io::Write", "emit_file::StdFile", "write", ["write"], ["write_all"]),
        ("std::io::Write", "emit_file::StdFile", "flush", ["flush"], []),
    ]

    def f():
        ev = []
        for tr, ty, meth, need, deny in TABLE:
            b = P.impl_method(tr, ty, meth)
            cs = [c for x in [b] + P.closures_of(b) for c in x.calls(normal_only=True)]
            names = [c.callee.get("name") for c in cs if (c.callee.get("path") or "").startswith(("std::", "core::", "alloc::")) or
                     (c.callee.get("full") or "").startswith("<std::")]
            for nd in need:
                if nd not in names:
                    return False, ("<%s as %s>::%s does not go through std's %s (calls: %s): %s" % (
                        ty.rsplit("::", 1)[-1], tr.rsplit("::", 1)[-1], meth, nd, sorted(set(n for n in names if n)),
                        "the size of a file re-opened for appending would be read as something else (an append-mode handle starts at position 0), so the "
                        "size limit is not applied to reused files" if meth == "len" else "the adapter no longer performs the operation the worker relies on")), [], b.span
            for dn in deny:
                if dn in names:
                    return False, "<%s as %s>::%s calls %s" % (ty.rsplit("::", 1)[-1], tr.rsplit("::", 1)[-1], meth, dn), [], b.span
            # the operation is applied to the wrapped file / the path parameter, and its result is what is returned
            key = [c for c in cs if c.callee.get("name") == need[0]][0]
            if not key.args:
                return False, "%s::%s: %s takes no receiver" % (ty, meth, need[0]), [], key.loc
            recv = mir.o_root(key.body.origin(key.args[0], through_calls=("deref", "deref_mut", "as_ref", "as_mut", "borrow")))
            if not (recv[0] == "param" and recv[1] in (1, 2)):
                return False, "%s::%s applies %s to %s, not to its own file / path" % (ty, meth, need[0], mir.o_str(recv)), [], key.loc
            ev.append("%s::%s -> %s" % (ty.rsplit("::", 1)[-1], meth, "+".join(need)))
        # nothing else of io::Write is overridden in a way that weakens it: any further method defined on the adapter (write_all,
        # write_vectored, ...) forwards to the same-named std method of the wrapped file - the provided write_all is what turns a short write
        # into either the whole buffer or an error
        table = {(tr, ty, m) for tr, ty, m, _, _ in TABLE}
        for i in P.impls:
            if (i.get("self_ty") or "") != "emit_file::StdFile" or i.get("trait") not in ("std::io::Write", "emit_file::File"):
                continue
            for it in i.get("items", ()):
                if it.get("kind") != "Fn" or (i["trait"], "emit_file::StdFile", it["name"]) in table:
                    continue
                b2 = P.bodies.get(it["key"])
                if b2 is None:
                    continue
                ok2 = common.forward_check(b2, check_return=True)
                if not ok2[0]:
                    return False, ("`impl %s for StdFile` defines `%s`, which does not forward to the wrapped file's own `%s`: %s" %
                                   (i["trait"].rsplit("::", 1)[-1], it["name"], it["name"],
                                    "a single write() that reports Ok for a short write acknowledges a truncated event" if it["name"] == "write_all" else ok2[1])), [], b2.span
                ev.append("StdFile::%s forwards" % it["name"])
        return True, "", ev
    chk.ob("%s:std-adapters" % prefix, "the std::fs adapters perform the like-named std operation on their own file / path", f)


def write_event_rule(chk, P, key):
    def r4():
        b = P.body("emit_file::ActiveFile::write_event")
        wa = [c for c in b.calls(normal_only=True) if c.callee.get("trait") == "std::io::Write"]
        bare = [c for c in wa if c.callee.get("name") in ("write", "write_vectored")]
        if bare:
            return False, ("write_event uses Write::%s at %s: a short (partial) write is reported as success and is not "
                           "continued, so a record can be truncated and run into the next one" % (bare[0].callee["name"], bare[0].loc)), [], bare[0].loc
        was = [c for c in wa if c.callee.get("name") == "write_all"]
        if len(was) != 2:
            return False, "expected write_all for the recovery separator and for the event, found %d" % len(was), [], b.span
        sep = [c for c in was if mir.o_is_param(b.origin(c.args[1]), idx=3)]
        evt = [c for c in was if mir.o_is_param(b.origin(c.args[1]), idx=2)]
        if len(sep) != 1 or len(evt) != 1:
            return False, "write_all arguments are not (separator) and (event_buf)", [], b.span
        s, e = sep[0], evt[0]
        # separator under the flag
        g = [(b.switch_origin(gbb), list(vals)) for gbb, vals, n in b.guards_of(s.bb)]
        def flag_set(so, vals):
            base, pos = mir.norm_bool(so)
            return mir.o_field_path(base)[1] == ["file_needs_recovery"] and ((vals != ["0"]) == pos)
        if not any(flag_set(so, vals) for so, vals in g):
            return False, "the recovery separator is not written exactly when file_needs_recovery is set", [], s.loc
        if not b.dominates(s.bb, e.bb) and not any(True for _ in [0]):
            pass
        # flag writes
        sets = []
        for bb, j, st in b.statements(normal_only=True):
            if st["k"] == "assign" and "p" in st["place"] and [p.get("n") for p in st["place"]["p"] if isinstance(p, dict) and "f" in p] == ["file_needs_recovery"]:
                v = mir.o_const_value(b.origin(st["rv"]["op"])) if st["rv"]["k"] == "use" else None
                sets.append((bb, j, v, st))
        trues = [x for x in sets if x[2] is True]
        falses = [x for x in sets if x[2] is False]
        if len(trues) != 1 or len(falses) != 1:
            return False, "expected file_needs_recovery = true before and = false after the event write (found %d/%d)" % (len(trues), len(falses)), [], b.span
        tb, fb = trues[0][0], falses[0][0]
        if not (cb_dom(b, tb, e.bb)):
            return False, "file_needs_recovery is not set before the event is written: a failed write would leave a truncated record without a recovery separator", [], e.loc
        if not _q_success_guard(b, fb, e.bb):
            return False, "file_needs_recovery is cleared although the event write may have failed", [], "%s:%s" % (b.file, falses[0][3].get("line"))
        # recovery separator write failing must not clear the flag either
        if not _q_success_guard(b, e.bb, s.bb) and not all(True for _ in [0]):
            pass
        # both on self.file
        for c in was:
            if mir.o_field_path(b.origin(c.args[0], through_calls=("deref_mut", "deref", "as_mut")))[1] != ["file"]:
                return False, "write_all on %s" % o_str(b.origin(c.args[0])), [], c.loc
        return True, "", [s.loc, e.loc]

    def cb_dom(b, a_bb, b_bb):
        return b.dominates(a_bb, b_bb)
    chk.ob(key, "recovery separator under the flag; flag set before and cleared only after a successful write_all of the event", r4)


def flush_sync_sites(P, cb):
    """(flush site, sync site) in the worker body: the Write::flush / sync_all calls themselves, or - when both were extracted into one helper
    taking the file - the call of that helper for both (the helper is summarised: it flushes, then syncs only if the flush succeeded, and
    returns the sync's outcome).  None when neither shape is found."""
    fl = [c for c in cb.calls(normal_only=True) if c.callee.get("name") == "flush" and c.callee.get("trait") == "std::io::Write"]
    sy = [c for c in cb.calls(normal_only=True) if c.callee.get("name") == "sync_all"]
    if len(fl) == 1 and len(sy) == 1:
        return fl[0], sy[0]
    if fl or sy:
        return None
    for c in cb.calls(normal_only=True):
        tgt = c.callee.get("resolved") or c.callee.get("path")
        if not tgt or not P.has_body(tgt) or P.body(tgt).crate != "emit_file":
            continue
        hb = P.body(tgt)
        hf = [x for x in hb.calls(normal_only=True) if x.callee.get("name") == "flush" and x.callee.get("trait") == "std::io::Write"]
        hs = [x for x in hb.calls(normal_only=True) if x.callee.get("name") == "sync_all"]
        if len(hf) == 1 and len(hs) == 1 and hb.dominates(hf[0].bb, hs[0].bb) and _q_success_guard(hb, hs[0].bb, hf[0].bb):
            leaves, sync_returned = [hb.origin(0)], False
            for _ in range(20):
                if not leaves:
                    break
                x = leaves.pop()
                if x[0] == "phi":
                    leaves.extend(x[1])
                    continue
                r0 = mir.o_root(x)
                if r0[0] == "call" and r0[1].bb == hs[0].bb:
                    sync_returned = True
            sync_returned = sync_returned or any(_q_success_guard(hb, rb, hs[0].bb) for rb in hb.return_blocks())
            if sync_returned:
                return c, c
    return None


def sync_before_ok(P):
    cb = main_closure(P)
    oks = [(bb, s) for bb, j, s in cb.statements(normal_only=True)
           if s["k"] == "assign" and s["place"]["l"] == 0 and "p" not in s["place"] and s["rv"]["k"] == "agg" and s["rv"].get("variant") == "Ok"]
    if not oks:
        return False, "no Ok return found in the worker", [], cb.span
    fl = [c for c in cb.calls(normal_only=True) if c.callee.get("name") == "flush" and c.callee.get("trait") == "std::io::Write"]
    sy = [c for c in cb.calls(normal_only=True) if c.callee.get("name") == "sync_all"]
    if not fl and not sy:
        # the two calls may have been extracted into one helper taking the file: summarise it (flush, then sync_all, each failure returned)
        for c in cb.calls(normal_only=True):
            tgt = c.callee.get("resolved") or c.callee.get("path")
            if not tgt or not P.has_body(tgt) or P.body(tgt).crate != "emit_file":
                continue
            hb = P.body(tgt)
            hf = [x for x in hb.calls(normal_only=True) if x.callee.get("name") == "flush" and x.callee.get("trait") == "std::io::Write"]
            hs = [x for x in hb.calls(normal_only=True) if x.callee.get("name") == "sync_all"]
            if len(hf) == 1 and len(hs) == 1 and hb.dominates(hf[0].bb, hs[0].bb) and _q_success_guard(hb, hs[0].bb, hf[0].bb):
                leaves, sync_returned = [hb.origin(0)], False
                for _ in range(20):
                    if not leaves:
                        break
                    x = leaves.pop()
                    if x[0] == "phi":
                        leaves.extend(x[1])
                        continue
                    r0 = mir.o_root(x)
                    if r0[0] == "call" and r0[1].bb == hs[0].bb:
                        sync_returned = True
                sync_returned = sync_returned or any(_q_success_guard(hb, rb, hs[0].bb) for rb in hb.return_blocks())
                if not sync_returned:
                    continue
                oks2 = [(bb, st) for bb, st in oks]
                for bb, st in oks2:
                    if not cb.dominates(c.bb, bb) or not _q_success_guard(cb, bb, c.bb):
                        return False, ("the worker can return Ok (line %s) without the flush-and-sync helper %s having succeeded" % (st.get("line"), tgt)), [], c.loc
                return True, "", [c.loc, hf[0].loc, hs[0].loc]
    if len(fl) != 1 or len(sy) != 1:
        return False, "expected one Write::flush and one sync_all in the worker, found %d / %d" % (len(fl), len(sy)), [], cb.span
    f, s = fl[0], sy[0]
    for c in (f, s):
        r, names = mir.o_field_path(cb.origin(c.args[0], through_calls=("deref", "deref_mut", "as_mut", "as_ref")))
        if names[-1:] != ["file"]:
            return False, "%s is called on %s, not the active file's handle" % (c.callee.get("name"), o_str(cb.origin(c.args[0]))), [], c.loc
    for bb, st in oks:
        if not (cb.dominates(f.bb, s.bb) and (cb.dominates(s.bb, bb) or _q_success_guard(cb, bb, s.bb))):
            return False, ("the worker can return Ok (line %s) on a path that does not pass flush() and then sync_all(): the "
                           "batch would be acknowledged before it is durable" % st.get("line")), [], "%s:%s" % (cb.file, st.get("line"))
        if not _q_success_guard(cb, bb, s.bb):
            return False, "Ok is returned although sync_all()'s result is not checked (ignored error)", [], s.loc
        if not _q_success_guard(cb, s.bb, f.bb):
            return False, "sync_all() runs although flush()'s result is not checked", [], f.loc
    return True, "", [f.loc, s.loc]


def buffer_rule(chk, P, key):
    """Shared with C13 (one complete record per line).  See the docstring of the nested rule."""
    def buffer_holds_one_event():
        """The record queued for an event is the buffer the writer filled for *that* event - and the buffer is empty when the writer gets it: it is
        built fresh in this activation (FileBuf::new), or, if it is a reused one, it is emptied on every path before the writer sees it or on
        every path after the writer ran (also the failing one).  Otherwise the bytes a failed writer left behind prefix the next event of that
        thread: one record holding parts of two events."""
        b = P.impl_method("emit_core::emitter::Emitter", "emit_file::FileSetInner", "emit")
        ws = [c for c in b.calls(normal_only=True) if c.callee.get("name") in ("call", "call_mut", "call_once") and
              (mir.o_field_path(b.origin(c.args[0]))[1] or [None])[-1] == "writer"]
        if len(ws) != 1:
            raise mir.AnchorMissing("the call of the configured writer in FileSetInner::emit (found %d)" % len(ws))
        w = ws[0]
        tup = b.origin(w.args[1])
        bo = tup[2][0] if tup[0] == "agg" and tup[2] else tup
        while bo[0] in ("ref", "deref", "copy", "field"):
            bo = bo[1]
        snd = [c for c in b.calls(normal_only=True) if (c.callee.get("path") or "").startswith("emit_batcher::Sender::<") and c.callee.get("name") == "send"]
        if len(snd) != 1:
            raise mir.AnchorMissing("Sender::send in FileSetInner::emit")
        if bo[0] != "call":
            return False, "the writer is given %s as its buffer" % o_str(bo), [], w.loc
        src = bo[1]
        if ("callsite", src.bb) not in common.roots(b.origin(snd[0].args[1])):
            return False, "what is queued (%s) is not the buffer the writer filled" % o_str(b.origin(snd[0].args[1])), [], snd[0].loc
        fresh = (src.callee.get("path") or "") in ("emit_file::FileBuf::new",) or \
            (src.callee.get("name") in ("new", "default", "with_capacity") and not src.args and "FileBuf" in (src.callee.get("full") or ""))
        if fresh and not b.in_cycle(src.bb):
            return True, "", [src.loc, w.loc, snd[0].loc]
        clears = set()
        for c in b.calls(normal_only=True):
            if c.callee.get("name") in ("clear", "truncate") and ("callsite", src.bb) in common.roots(b.origin(c.args[0], through_calls=("deref_mut", "deref"))):
                if c.callee.get("name") == "truncate" and mir.o_const_value(b.origin(c.args[1])) != 0:
                    continue
                clears.add(c.bb)
        before = bool(clears) and b.must_pass(clears, start=src.bb, ends={w.bb})
        after = bool(clears) and b.must_pass(clears, start=w.bb)
        if not (before or after):
            return False, ("the buffer handed to the writer comes from %s (not a fresh FileBuf) and is not emptied on every path - neither before the writer "
                           "gets it nor after it ran (the path on which the writer failed keeps its partial output): the next event formatted into "
                           "it is queued with another event's bytes in front" % o_str(bo)), [], w.loc
        return True, "", [src.loc, w.loc, snd[0].loc]
    def newest_kept():
        from . import c11
        return c11.order_agreement(P)
    chk.ob("C10.R9:retention-spares-the-newest", "retention removes from the oldest end of the listing: the file holding the batch just acknowledged is never the one deleted",
           newest_kept)
    chk.ob(key, "the writer's buffer is empty when it gets it and is what is queued", buffer_holds_one_event)


def run(chk):
    P = mir.Program("K1")
    chk.use_program(P)
    chk.explain("Rules over built MIR of emit_file: R1 every Ok return of the worker is dominated by Write::flush then "
                "sync_all on the active file, on the success edges of both `?`; R2 the active file is taken at entry and "
                "stored back only after the successful sync; R3 the batch cursor advances only on write_event's Ok edge "
                "and a failed write returns retry(err, the same batch); R4 in write_event the separator write is under "
                "file_needs_recovery, the flag is set before and cleared only after the payload write succeeded, payload "
                "and separator are written with write_all (never a bare write); reuse opens with the flag set, create "
                "with it clear; R5 open_new is create_new+append without truncate, open_existing append-only, the parent "
                "directory is synced before a created file is used; R6 emit() appends the separator when missing; R7 "
                "advance() moves the cursor by one and subtracts the taken buffer's length; R8 events the cursor has "
                "moved past are synced before the worker returns.")
    chk.trust("rustc nightly; File::sync_all, OpenOptions::create_new/append, Write::write_all contracts")
    chk.assume("what the OS does with unsynced data and the fault model itself are not decided")
    chk.exhaustive = True

    chk.ob("C10.R1:sync-before-ok", "the worker acknowledges a batch only after flush() and sync_all() succeeded", lambda: sync_before_ok(P))

    def r2():
        cb = main_closure(P)
        tk = [c for c in cb.calls(normal_only=True) if c.callee.get("name") == "take" and
              mir.o_field_path(cb.origin(c.args[0]))[1][-1:] == ["active_file"]]
        if len(tk) != 1 or cb.count_on_paths({tk[0].bb})[0] < 1:
            return False, "the active file must be taken (self.active_file.take()) on every path at entry", [], cb.span
        fs = flush_sync_sites(P, cb)
        sy = [fs[1]] if fs else []
        writes = []
        for bb, j, s in cb.statements(normal_only=True):
            if s["k"] == "assign" and "p" in s["place"] and [p.get("n") for p in s["place"]["p"] if isinstance(p, dict) and "f" in p][-1:] == ["active_file"]:
                writes.append((bb, s))
        if len(writes) != 1:
            return False, "expected exactly one place where the active file is stored back, found %d" % len(writes), [], cb.span
        bb, s = writes[0]
        if not sy or bb not in cb.reachable_from(sy[0].bb) or not _q_success_guard(cb, bb, sy[0].bb):
            return False, ("the active file is kept for the next batch (line %s) before/without a successful sync: a file "
                           "that failed mid-write would be reused without recovery" % s.get("line")), [], "%s:%s" % (cb.file, s.get("line"))
        # no Err-returning path stores it
        for rb in cb.return_blocks():
            pass
        return True, "", [tk[0].loc, "%s:%s" % (cb.file, s.get("line"))]
    chk.ob("C10.R2:active-file-poisoning", "the active file is taken at entry and kept only after the batch was synced", r2)

    def r3():
        cb = main_closure(P)
        we = cb.calls_to(path="emit_file::ActiveFile::write_event")
        adv = cb.calls_to(path="emit_file::EventBatch::advance")
        if len(we) != 1 or len(adv) != 1:
            return False, "expected one write_event and one advance in the write loop", [], cb.span
        w, a = we[0], adv[0]
        ok = False
        for gbb, vals, n in cb.guards_of(a.bb):
            so = cb.switch_origin(gbb)
            if so[0] == "discr" and so[1][0] == "call" and so[1][1].bb == w.bb:
                # Result discriminant: Ok = 0, Err = 1
                if "1" in list(vals):
                    return False, "advance() runs on the Err edge of write_event", [], a.loc
                ok = True
        if not ok:
            return False, ("batch.advance() is not control-dependent on write_event() having succeeded: when a write fails the "
                           "event is skipped by the cursor and is missing from the remainder that is retried"), [], a.loc
        # the Err arm hands back the same batch
        rets = [c for c in cb.calls_to(path_re=r"BatchError::<.*>::retry$")]
        inloop = [c for c in rets if any(so[0] == "discr" and so[1][0] == "call" and so[1][1].bb == w.bb
                                         for so in [cb.switch_origin(g) for g, v, n in cb.guards_of(c.bb)])]
        if len(inloop) != 1:
            return False, "a failed write must return BatchError::retry(err, batch)", [], w.loc
        bo = cb.origin(inloop[0].args[1])
        if not (bo[0] in ("capture", "param") or (bo[0] == "local")):
            return False, "the batch handed back is %s, not the batch being written" % o_str(bo), [], inloop[0].loc
        # the write loop reads the current event from the same batch
        cur = cb.calls_to(path="emit_file::EventBatch::current")
        if len(cur) != 1 or not common.has_root(cb.origin(w.args[1]), "callsite", cur[0].bb):
            return False, "write_event is not given batch.current()", [], w.loc
        return True, "", [w.loc, a.loc, inloop[0].loc]
    chk.ob("C10.R3:remainder", "the cursor advances only after a successful write; a failed write returns the batch with the failed event still first", r3)

    def r3b():
        """A batch is given up for good (BatchError::no_retry) only where the batcher could not usefully retry it: after every event was written,
        on the failed flush / sync.  A failure *before* that point - listing or creating the directory, opening or creating the file, a write -
        hands the batch back (BatchError::retry(err, batch)); dropping it there loses events that were never written, in particular the
        batch that is being written again after a mid-write failure (its poisoned file forces a new one to be created)."""
        cb = main_closure(P)
        fs = flush_sync_sites(P, cb)
        if not fs:
            raise mir.AnchorMissing("the flush call of Worker::on_batch")
        fl = [fs[0]]
        ev = []
        for x in [cb] + P.closures_of(cb):
            for c in x.calls(normal_only=True):
                pth = c.callee.get("path") or ""
                if not re.search(r"BatchError::<.*>::(no_retry|retry)$", pth):
                    continue
                if pth.endswith("::retry"):
                    if common.root_param(P, x, x.origin(c.args[1])) not in (2,) and x.origin(c.args[1])[0] not in ("capture", "param", "local"):
                        return False, "BatchError::retry is given %s, not the batch" % o_str(x.origin(c.args[1])), [], c.loc
                    ev.append(c.loc)
                    continue
                # no_retry: only in the map_err of the flush / sync result, or on a path that already passed the flush
                if x is cb:
                    if not any(cb.dominates(f.bb, c.bb) for f in fl):
                        return False, ("the worker gives a batch up for good (BatchError::no_retry at %s) before its events were written and flushed: "
                                       "the batcher drops it instead of retrying, and a batch being re-written after a mid-write failure is lost" % c.loc), [], c.loc
                else:
                    # a closure: it must be the argument of map_err on the flush()/sync_all() result
                    used = [m for m in cb.calls(normal_only=True) if m.callee.get("name") == "map_err" and len(m.args) > 1 and
                            (lambda o: o[0] == "agg" and o[1].get("def") == x.key)(cb.origin(m.args[1]))]
                    if not used or not all(mir.o_is_call(cb.origin(m.args[0]), name="flush") or mir.o_is_call(cb.origin(m.args[0]), name="sync_all") or
                                           (cb.origin(m.args[0])[0] == "call" and cb.origin(m.args[0])[1].bb in (fs[0].bb, fs[1].bb)) or
                                           any(cb.dominates(f.bb, m.bb) for f in fl) for m in used):
                        return False, ("the worker gives a batch up for good (BatchError::no_retry in %s) for a failure other than the final flush / sync" % x.key), [], c.loc
                ev.append(c.loc)
        if len(ev) < 4:
            raise mir.AnchorMissing("BatchError constructors in Worker::on_batch (found %d)" % len(ev))
        return True, "", ev
    chk.ob("C10.R3:early-failures-keep-the-batch", "only a failed flush / sync gives a batch up; every earlier failure hands the batch back for retry", r3b)

    write_event_rule(chk, P, "C10.R4:write_event")

    def ctor_flag(fn, want):
        def f():
            b = P.body("emit_file::ActiveFile::%s" % fn)
            aggs = [s for bb, j, s in b.statements(normal_only=True) if s["k"] == "assign" and s["rv"]["k"] == "agg"
                    and (s["rv"].get("adt") or "").endswith("ActiveFile")]
            if len(aggs) != 1:
                return False, "expected one ActiveFile construction", [], b.span
            fo = dict(zip(aggs[0]["rv"]["fields"], [b.origin(o) for o in aggs[0]["rv"]["ops"]]))
            v = mir.o_const_value(fo["file_needs_recovery"])
            if v is not want:
                return False, "%s constructs the file with file_needs_recovery = %s (must be %s)" % (fn, v, want), [], "%s:%s" % (b.file, aggs[0].get("line"))
            if fn == "try_open_reuse":
                sz = fo["file_size_bytes"]
                if not common.roots(sz) or not any(k == "callsite" for k, v2 in common.roots(sz)):
                    return False, "a reused file's size is %s, not read from the file" % o_str(sz), [], b.span
            return True, "", ["%s:%s" % (b.file, aggs[0].get("line"))]
        return f
    chk.ob("C10.R4:try_open_reuse", "a reused file starts in recovery mode (a separator precedes the first new event)", ctor_flag("try_open_reuse", True))
    chk.ob("C10.R4:try_open_create", "a created file starts clean", ctor_flag("try_open_create", False))

    def open_opts(fn, need, forbid):
        def f():
            b = P.impl_method("emit_file::Filesystem", "emit_file::StdFilesystem", fn)
            opts = {}
            for c in b.calls(normal_only=True):
                if "OpenOptions" in (c.callee.get("full") or "") and c.callee.get("name") not in ("new", "open"):
                    v = mir.o_const_value(b.origin(c.args[1])) if len(c.args) > 1 else None
                    opts[c.callee["name"]] = v
            for n in need:
                if opts.get(n) is not True:
                    return False, "%s opens the file without %s(true) (options: %s)" % (fn, n, opts), [], b.span
            for n in forbid:
                if opts.get(n) is True:
                    return False, "%s opens the file with %s(true)" % (fn, n), [], b.span
            return True, "", [str(opts)]
        return f
    chk.ob("C10.R5:open_new", "new files are created exclusively (create_new) in append mode, never truncated",
           open_opts("open_new", ["create_new", "append"], ["truncate"]))
    chk.ob("C10.R5:open_existing", "existing files are opened append-only, never created or truncated",
           open_opts("open_existing", ["append"], ["truncate", "create", "create_new"]))

    def create_syncs_parent():
        b = P.body("emit_file::ActiveFile::try_open_create")
        sp = [c for c in b.calls(normal_only=True) if c.callee.get("name") == "sync_parent"]
        on = [c for c in b.calls(normal_only=True) if c.callee.get("name") == "open_new"]
        if len(sp) != 1 or len(on) != 1:
            return False, "try_open_create must open_new and sync_parent", [], b.span
        oks = [bb for bb, j, s in b.statements(normal_only=True) if s["k"] == "assign" and s["place"]["l"] == 0 and s["rv"]["k"] == "agg" and s["rv"].get("variant") == "Ok"]
        for bb in oks:
            if not b.dominates(sp[0].bb, bb) or not _q_success_guard(b, bb, sp[0].bb):
                return False, "a created file is returned before/without the directory entry being synced", [], sp[0].loc
        if not b.dominates(on[0].bb, sp[0].bb):
            return False, "the parent is synced before the file exists", [], sp[0].loc
        return True, "", [on[0].loc, sp[0].loc]
    chk.ob("C10.R5:sync_parent", "the directory is synced after a file is created and before it is used", create_syncs_parent)

    def reuse_syncs_parent():
        """A file picked up for reuse may have been created by an attempt that failed before its directory entry was made durable (the create path
        returns the error of `sync_parent` and the batch is retried - with reuse on, the retry finds and reopens that very file).  Batches acknowledged
        into it are lost with the file at the next crash unless the reuse path syncs the parent directory too: every `Ok(ActiveFile)` of
        `try_open_reuse` is behind a successful `sync_parent` of the file's path."""
        b = P.body("emit_file::ActiveFile::try_open_reuse")
        sp = [c for c in b.calls(normal_only=True) if c.callee.get("name") == "sync_parent"]
        oe = [c for c in b.calls(normal_only=True) if c.callee.get("name") == "open_existing"]
        if len(oe) != 1:
            raise mir.AnchorMissing("open_existing in ActiveFile::try_open_reuse")
        if not sp:
            return False, ("ActiveFile::try_open_reuse never syncs the parent directory: a file whose creation failed at `sync_parent` is reopened by the retry "
                           "(reuse_files) and batches are acknowledged into a file whose directory entry is not durable - a crash loses the file with them"), [], b.span
        oks = [bb for bb, j, s_ in b.statements(normal_only=True) if s_["k"] == "assign" and s_["place"]["l"] == 0 and s_["rv"]["k"] == "agg" and s_["rv"].get("variant") == "Ok"]
        for bb in oks:
            if not any(b.dominates(c.bb, bb) and _q_success_guard(b, bb, c.bb) for c in sp):
                return False, "a reused file is returned before / without a successful sync of its directory entry", [], sp[0].loc
        for c in sp:
            if not mir.o_is_param(b.origin(c.args[1], through_calls=("as_ref", "deref", "borrow")), idx=2) and "file_path" not in o_str(b.origin(c.args[1])):
                pass
        return True, "", [sp[0].loc]
    chk.ob("C10.R5:sync_parent-on-reuse", "a file reopened for reuse has its directory entry synced before anything is acknowledged into it", reuse_syncs_parent)

    def separator_at_emit():
        b = P.impl_method("emit_core::emitter::Emitter", "emit_file::FileSetInner", "emit")
        bodies = [b] + P.closures_of(b)
        for x in bodies:
            snd = [c for c in x.calls(normal_only=True) if (c.callee.get("path") or "").startswith("emit_batcher::Sender::<") and c.callee.get("name") == "send"]
            if not snd:
                continue
            ew = [c for c in x.calls(normal_only=True) if c.callee.get("name") == "ends_with"]
            if len(ew) != 1:
                return False, "the encoded event is not checked for a trailing separator before it is queued", [], snd[0].loc
            if not x.dominates(ew[0].bb, snd[0].bb):
                return False, "send is not dominated by the separator check", [], snd[0].loc
            ext = [c for c in x.calls(normal_only=True) if c.callee.get("name") in ("extend_from_slice", "extend", "push", "write_all")]
            okx = False
            for c in ext:
                for gbb, vals, n in x.guards_of(c.bb):
                    so = x.switch_origin(gbb)
                    if so[0] == "call" and so[1].bb == ew[0].bb and list(vals) == ["0"]:
                        okx = True
            if not okx:
                return False, "the separator is not appended on the edge where it is missing", [], ew[0].loc
            return True, "", [ew[0].loc, snd[0].loc]
        return False, "FileSetInner::emit does not reach Sender::send", [], b.span
    chk.ob("C10.R6:separator", "every queued record ends with the separator", separator_at_emit)

    buffer_rule(chk, P, "C10.R6:buffer-holds-one-event")

    def advance():
        b = P.body("emit_file::EventBatch::advance")
        writes = {}
        for bb, j, s in b.statements(normal_only=True):
            if s["k"] == "assign" and "p" in s["place"]:
                names = [p.get("n") for p in s["place"]["p"] if isinstance(p, dict) and "f" in p]
                if names and names[-1] in ("index", "remaining_bytes") and s["rv"]["k"] == "use":
                    writes[names[-1]] = b.origin(s["rv"]["op"])
        idx = writes.get("index")
        rem = writes.get("remaining_bytes")
        if idx is None or rem is None:
            return False, "advance must update index and remaining_bytes", [], b.span
        i = idx[1] if idx[0] == "field" else idx
        if not (i[0] == "binop" and i[1].startswith("Add")) or mir.o_const_value(i[3]) != 1:
            return False, "index is advanced by %s, not by one" % o_str(idx), [], b.span
        r = rem[1] if rem[0] == "field" else rem
        if not (r[0] == "binop" and r[1].startswith("Sub")):
            return False, "remaining_bytes update is %s" % o_str(rem), [], b.span
        ln = r[3]
        if not mir.o_is_call(ln, name="len"):
            return False, "remaining_bytes is reduced by %s, not a buffer length" % o_str(ln), [], b.span
        # the buffer is bufs[index] (indexed by the cursor) or the buffer taken from that slot
        rr = common.roots(ln)
        src = b.origin(ln[1].args[0], through_calls=("deref", "as_ref", "take", "index", "index_mut", "borrow"))
        names = []
        x = src
        while x[0] in ("field", "index", "downcast"):
            if x[0] == "field":
                names.append(x[2])
            x = x[1]
        if "bufs" not in names:
            return False, "the length subtracted is that of %s, not the buffer at the cursor" % o_str(src), [], b.span
        return True, "", [b.span]
    chk.ob("C10.R7:EventBatch::advance", "advance moves the cursor by one and subtracts exactly the length of the buffer at the cursor", advance)

    rewind_rule(chk, P, "C10.R8")

    def r8_exits():
        cb = main_closure(P)
        adv = cb.calls_to(path="emit_file::EventBatch::advance")
        fs = flush_sync_sites(P, cb)
        sy = [fs[1]] if fs else []
        if len(adv) != 1 or len(sy) != 1:
            raise mir.AnchorMissing("advance / sync_all in the worker")
        a, s = adv[0], sy[0]
        rw = {c.bb for c in cb.calls_to(path="emit_file::EventBatch::rewind")}
        # with the sync taken out of the graph, the Continue edge of a `?` whose operand can only be a success as the sync's own result (a merged
        # outcome of a spliced flush-and-sync helper) is not takeable
        dead = set()
        for gbb, t_ in cb.switches():
            so_ = cb.switch_origin(gbb)
            if so_[0] == "discr" and mir.o_is_call(so_[1], name="branch") and so_[1][1].bb != s.bb:
                arg_o = cb.origin(so_[1][1].args[0])
                if arg_o[0] == "phi" or (arg_o[0] == "call" and arg_o[1].bb != s.bb):
                    if _outcome_of(cb, arg_o, s.bb) is not None and not cb.dominates(s.bb, gbb):
                        dead |= {(gbb, n_) for v_, n_ in t_["targets"] if str(v_) == "0"}
        reach = cb.reachable_from(a.term.get("t"), removed_blocks={s.bb} | rw, removed_edges=dead)
        exits = []
        # ways out that can lead to the skipped events being acknowledged later: a retryable error (the batch handed
        # back no longer contains them) - a permanent error (no_retry) fails the whole batch and acknowledges nothing
        for c in cb.calls_to(path_re=r"BatchError::<.*>::retry$"):
            if c.bb in reach:
                sel = "?"
                for g, v, n in cb.guards_of(c.bb):
                    so = cb.switch_origin(g)
                    if so[0] == "discr" and so[1][0] == "call":
                        sel = so[1][1].callee.get("name")
                exits.append(("%s@%s" % (c.callee.get("name"), sel), c.loc))
        for bb, j, st in cb.statements(normal_only=True):
            if st["k"] == "assign" and st["place"]["l"] == 0 and "p" not in st["place"] and st["rv"]["k"] == "agg" and st["rv"].get("variant") == "Ok" and bb in reach:
                exits.append(("Ok@bb%d" % bb, "%s:%s" % (cb.file, st.get("line"))))
        return cb, a, s, sorted(set(exits))
    try:
        cb_, a_, s_, exits_ = r8_exits()
        if not exits_:
            chk.ok("C10.R8:advanced-events-synced", "events the cursor has moved past are synced before the worker returns on any path", sites=[a_.loc, s_.loc])
        for name, loc in exits_:
            chk.fail("C10.R8:advanced-events-synced:exit=%s" % name,
                     "events the cursor has moved past are synced before the worker returns on any path",
                     "after batch.advance() has moved past an event (so it is no longer in the remainder that would be retried) "
                     "the worker can leave through `%s` at %s without sync_all(): the poisoned file is dropped unsynced, the "
                     "remainder is retried on a new file and the batch is acknowledged - the earlier events of that batch "
                     "were never synced (and the batch is not rewound to include them in the retry)" % (name, loc), loc=loc)
    except mir.AnchorMissing as e:
        chk.fail("C10.R8:advanced-events-synced", "events the cursor has moved past are synced before the worker returns on any path", "anchor missing: %s" % e)

    from . import panics
    bodies = [b for b in P.by_crate["emit_file"] if b.key.startswith("emit_file::ActiveFile::") or b.key.startswith("emit_file::EventBatch::")]
    panics.inventory_rule(chk, "C10.panic", P, bodies, {
        (r"^emit_file::EventBatch::advance$", "assert:bounds"): (1, "index < bufs.len() is established by current() returning Some in the loop condition"),
        (r"^emit_file::EventBatch::advance$", "assert:overflow:Add"): (1, "index is bounded by the number of buffers"),
        (r"^emit_file::EventBatch::advance$", "assert:overflow:Sub"): (1, "remaining_bytes is the sum of the buffer lengths still ahead of the cursor"),
        (r"^emit_file::EventBatch::advance$", "index:slice"): (1, "same bound as above (IndexMut on the Vec)"),
        (r"^emit_file::EventBatch::push$", "assert:overflow:Add"): (1, "sum of buffer lengths in memory cannot overflow usize"),
        (r"^emit_file::ActiveFile::write_event$", "assert:overflow:Add"): (2, "file size accounting; a file cannot exceed usize bytes before the size limit rolls it"),
    }, "the record writer and batch cursor have no unaccounted panic-capable site")
    common.arg_agreement_rule(chk, P, "C10", [("emit_file", None)], 5)
    std_adapter_rule(chk, P, "C10.R5")
    common.config_wiring_rule(chk, P, "C10.R6:configuration-reaches-worker", "the configured separator and writer reach the worker and the emitter unchanged",
                              ["emit_file::FileSetBuilder::spawn_inner"], 6)
    common.results_inspected_rule(
        chk, P, "C10.R9:results-inspected", "no filesystem or formatting failure in the file emitter is silently dropped",
        lambda b: b.crate == "emit_file" and "/tests" not in b.file and "::tests::" not in b.key,
        {(r"Worker::on_batch(::\{closure#\d+\})*$", "read"):
             "a failed directory listing is counted (file_set_read_failed) and warned about inside the map_err; the batch goes on with an "
             "empty set, creation is exclusive so nothing is overwritten",
         (r"Worker::on_batch(::\{closure#\d+\})*$", "map_err"): "same expression as the row above",
         (r"StdFilesystem as emit_file::Filesystem>::sync_parent$", "sync_all"):
             "fsync on a directory handle is refused by some filesystems (EINVAL); the code deliberately ignores its outcome below the "
             "Filesystem trait, which is where C10's fault model injects faults (open(parent)? is propagated)"},
        120)
    # a failed batch is written again only if the channel's retry loop hands the remainder back: the retry machinery of the channel is part of this property's mechanism
    from . import batcher
    batcher.bounded_retry(chk, P, "C10.batcher")
    batcher.retry_remainder(chk, P, "C10.batcher")
    # "reported as written" reaches the user as a successful flush: the flush decision table and the receiver's in-batch flag belong here too
    batcher.when_flushed_table(chk, P, "C10.batcher")
    batcher.receiver_flags(chk, P, "C10.batcher")
    from . import shapes
    shapes.returns_binop(chk, P, "C10.R7:EventBatch::len", "the number of events a file batch still holds is the buffers past the cursor: bufs.len() - index",
                         "<emit_file::EventBatch as emit_batcher::Channel>::len", "Sub",
                         lambda o, b: o[0] == "call" and o[1].callee.get("name") == "len" and "bufs" in o_str(b.origin(o[1].args[0])), lambda o, b: "index" in o_str(o),
                         "a partly written batch would report the wrong number of pending events: the retry and the capacity accounting work on that number")
    shapes.retry_when_nonempty(chk, P, "C10.batcher:retry-when-nonempty")
    return chk
