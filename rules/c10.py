from . import mir


def sync_before_ok(P):
    raise mir.AnchorMissing("C10 rules not built yet")
