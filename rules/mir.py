"""Program model over mirfacts JSON: bodies, CFG utilities, provenance, path rules, call graph."""
import collections
import re

from . import facts as _facts


class AnchorMissing(Exception):
    """An anchor (function / impl / ADT) a rule is phrased over does not exist any more."""


def _strip_lifetimes(s):
    # "<&'a T as X>" -> "<&T as X>", "SpanGuard::<'a, T, P, F>" -> "SpanGuard::<T, P, F>"
    s = re.sub(r"'[a-zA-Z_][a-zA-Z0-9_]*\s*,\s*", "", s)
    s = re.sub(r"&'[a-zA-Z_][a-zA-Z0-9_]* ", "&", s)
    s = re.sub(r"\s*\+\s*'[a-zA-Z_][a-zA-Z0-9_]*", "", s)
    s = re.sub(r"<'[a-zA-Z_][a-zA-Z0-9_]*>", "", s)
    s = re.sub(r"for<> ", "", s)
    return s


# thorough tier: `./check` re-runs a property's rules over another build configuration by mapping the
# configuration the rules ask for (K1) to it; a configuration mapped to None does not exist in the overlay.
CONFIG_OVERRIDE = {}


class Program:
    def __init__(self, config="K1", crates=None, prefer_features=("std",)):
        if crates is None and config in CONFIG_OVERRIDE:
            config = CONFIG_OVERRIDE[config]
            if config is None:
                raise AnchorMissing("this configuration is not part of the overlay")
        if crates is None:
            crates, th = _facts.load(config)
            self.tree_hash = th
        self.config = config
        self.crates_raw = crates
        self.bodies = {}
        self.by_crate = collections.defaultdict(list)
        self.adts = {}
        self.impls = []
        self.statics = {}
        self.consts = {}
        self.fns = {}
        # when a crate was compiled several times (host build for the proc macro without std,
        # target build with std) keep the richest feature set
        best = {}
        for c in crates:
            name = c["crate"]
            score = (len(c["features"]), len(c["bodies"]))
            if name not in best or score > best[name][0]:
                best[name] = (score, c)
        self.crate_facts = {n: c for n, (s, c) in best.items()}
        for name, c in self.crate_facts.items():
            seen = collections.Counter()
            for b in c["bodies"]:
                k = b["key"]
                seen[k] += 1
                if seen[k] > 1:
                    k = "%s#%d" % (k, seen[k])
                    b["key"] = k
                body = Body(b, name, self)
                self.bodies[k] = body
                self.by_crate[name].append(body)
            for a in c["adts"]:
                self.adts[a["path"]] = a
            for i in c["impls"]:
                i["crate"] = name
                self.impls.append(i)
            for s in c["statics"]:
                s["crate"] = name
                self.statics[s["path"]] = s
            for k in c["consts"]:
                self.consts[k["path"]] = k
            for f in c["fns"]:
                self.fns[f["key"]] = f
        self._norm = None
        self._cg = None

    # ---- lookup ---------------------------------------------------------------------------
    def body(self, key):
        b = self.bodies.get(key)
        if b is not None:
            return b
        # tolerate lifetime-name differences
        if self._norm is None:
            self._norm = {}
            for k, v in self.bodies.items():
                self._norm.setdefault(_strip_lifetimes(k), v)
        b = self._norm.get(_strip_lifetimes(key))
        if b is None:
            raise AnchorMissing("body `%s` not found in %s facts" % (key, self.config))
        return b

    def has_body(self, key):
        try:
            self.body(key)
            return True
        except AnchorMissing:
            return False

    def find(self, pred=None, crate=None, trait=None, method=None, self_ty=None, name=None, key_re=None):
        out = []
        src = self.by_crate[crate] if crate else self.bodies.values()
        for b in src:
            if trait is not None and b.trait != trait:
                continue
            if method is not None and b.method != method:
                continue
            if self_ty is not None and _strip_lifetimes(b.self_ty or "") != _strip_lifetimes(self_ty):
                continue
            if name is not None and b.name != name:
                continue
            if key_re is not None and not re.search(key_re, b.key):
                continue
            if pred is not None and not pred(b):
                continue
            out.append(b)
        return out

    def impl_method(self, trait, self_ty, method):
        """Body of `<self_ty as trait>::method` (root item, not closures); fail closed."""
        r = [b for b in self.find(trait=trait, method=method, self_ty=self_ty) if not b.is_closure]
        if not r:
            raise AnchorMissing("impl method `<%s as %s>::%s` not found" % (self_ty, trait, method))
        return r[0]

    def impls_of(self, trait):
        return [i for i in self.impls if i.get("trait") == trait]

    def adt(self, path):
        a = self.adts.get(path)
        if a is None:
            raise AnchorMissing("ADT `%s` not found" % path)
        return a

    def capture_origin(self, closure_body, cap):
        """Provenance, in the enclosing body, of what a closure captured.  `cap` is a ("capture", name, field index) origin
        (or a field index).  Lets rules speak about *what* was captured instead of the captured variable's name."""
        idx = cap[2] if isinstance(cap, tuple) and len(cap) > 2 else cap
        parent = self.bodies.get(closure_body.parent_key)
        if parent is None or not isinstance(idx, int):
            return ("unknown",)
        for bb, j, st in parent.statements(normal_only=True):
            if st["k"] == "assign" and st["rv"]["k"] == "agg" and st["rv"].get("ak") in ("closure", "coroutine") and st["rv"].get("def") == closure_body.key:
                ops = st["rv"].get("ops") or []
                if idx < len(ops):
                    return parent.origin(ops[idx])
        return ("unknown",)

    def closures_of(self, body, recursive=True):
        out = []
        for b in self.bodies.values():
            if b.parent_key == body.key:
                out.append(b)
                if recursive:
                    out.extend(self.closures_of(b))
        return out

    # ---- call graph -----------------------------------------------------------------------
    def callgraph(self):
        if self._cg is not None:
            return self._cg
        by_trait_method = collections.defaultdict(list)
        for b in self.bodies.values():
            if b.trait and not b.is_closure:
                by_trait_method[(b.trait, b.method)].append(b.key)
        cg = {}
        for b in self.bodies.values():
            edges = []  # (kind, target key or extern path, site)
            for cs in b.calls():
                c = cs.callee
                if "indirect" in c:
                    edges.append(("indirect", None, cs))
                    continue
                tgt = c.get("resolved") or c.get("path")
                if tgt in self.bodies:
                    edges.append(("direct", tgt, cs))
                    continue
                n = self._norm_lookup(tgt)
                if n:
                    edges.append(("direct", n, cs))
                    continue
                if c.get("trait") and "resolved" not in c:
                    # unresolved trait call: fan out to every workspace impl, plus the default body
                    impls = by_trait_method.get((c["trait"], c["name"]), [])
                    if impls:
                        for k in impls:
                            edges.append(("fanout", k, cs))
                        continue
                edges.append(("extern", tgt, cs))
            for cl in b.closure_defs():
                if cl in self.bodies:
                    edges.append(("closure", cl, None))
            cg[b.key] = edges
        self._cg = cg
        return cg

    def _norm_lookup(self, key):
        if key is None:
            return None
        if self._norm is None:
            self._norm = {}
            for k, v in self.bodies.items():
                self._norm.setdefault(_strip_lifetimes(k), v)
        b = self._norm.get(_strip_lifetimes(key))
        return b.key if b else None

    def reachable(self, roots, follow=("direct", "fanout", "closure"), stop=None):
        """Keys of bodies reachable from roots, with one predecessor per node for path reports."""
        cg = self.callgraph()
        pred = {}
        seen = set()
        work = collections.deque()
        for r in roots:
            k = r.key if isinstance(r, Body) else r
            if k not in seen:
                seen.add(k)
                pred[k] = None
                work.append(k)
        while work:
            k = work.popleft()
            if stop and stop(k):
                continue
            for kind, tgt, cs in cg.get(k, ()):
                if kind in follow and tgt is not None and tgt not in seen:
                    seen.add(tgt)
                    pred[tgt] = (k, cs)
                    work.append(tgt)
        return seen, pred

    def call_path(self, pred, key):
        out = []
        cur = key
        while cur is not None and pred.get(cur) is not None:
            p, cs = pred[cur]
            out.append("%s -> %s%s" % (p, cur, (" at %s" % cs.loc) if cs is not None else " (closure)"))
            cur = p
        return list(reversed(out))


class CallSite:
    __slots__ = ("body", "bb", "term", "callee", "args", "dest")

    def __init__(self, body, bb, term):
        self.body = body
        self.bb = bb
        self.term = term
        self.callee = term["callee"]
        self.args = term["args"]
        self.dest = term.get("dest")

    @property
    def path(self):
        return self.callee.get("path")

    @property
    def name(self):
        return self.callee.get("name")

    @property
    def target(self):
        return self.callee.get("resolved") or self.callee.get("path")

    @property
    def loc(self):
        return "%s:%s" % (self.body.file, self.term.get("line"))

    @property
    def expn(self):
        return bool(self.term.get("expn"))

    def is_method(self, trait=None, name=None):
        c = self.callee
        if name is not None and c.get("name") != name:
            return False
        if trait is not None and c.get("trait") != trait and c.get("impl_trait") != trait:
            return False
        return True

    def arg_origin(self, i, **kw):
        return self.body.origin(self.args[i], **kw)

    def __repr__(self):
        return "<call %s @%s bb%d>" % (self.callee.get("full") or self.callee.get("indirect"), self.loc, self.bb)


class Body:
    def __init__(self, raw, crate, program):
        self.raw = raw
        self.crate = crate
        self.program = program
        self.key = raw["key"]
        self.kind = raw["kind"]
        self.name = raw.get("name")
        self.trait = raw.get("trait")
        self.trait_default = raw.get("trait_default")
        self.self_ty = raw.get("self_ty")
        self.method = raw.get("method")
        self.parent_key = raw.get("parent")
        self.root_key = raw.get("root")
        self.is_closure = self.kind in ("Closure", "InlineConst", "SyntheticCoroutineBody") or "parent" in raw
        self.locals = raw["locals"]
        self.blocks = raw["blocks"]
        self.argc = raw["argc"]
        self.span = raw["span"]
        self.file = raw["span"].rsplit(":", 1)[0]
        self.vis = raw.get("vis")
        self.sig = raw.get("sig")
        self.coroutine = bool(raw.get("coroutine"))
        self._defs = None
        self._calls = None
        self._dom = {}
        self._succ = {}

    def __repr__(self):
        return "<body %s>" % self.key

    # ---- CFG --------------------------------------------------------------------------------
    def succ(self, bb, unwind=False, imaginary=False):
        t = self.blocks[bb]["term"]
        k = t["k"]
        out = []
        if k == "goto":
            out = [t["t"]]
        elif k == "switch":
            out = [x[1] for x in t["targets"]] + [t["otherwise"]]
        elif k in ("drop", "assert", "falseunwind"):
            out = [t["t"]]
        elif k == "call":
            if "t" in t:
                out = [t["t"]]
        elif k == "yield":
            out = [t["t"]]
            if unwind and "drop" in t:
                out.append(t["drop"])
        elif k == "falseedge":
            out = [t["t"]]
            if imaginary:
                out.append(t["imaginary"])
        if unwind and isinstance(t.get("unwind"), int):
            out.append(t["unwind"])
        return out

    def succs(self, unwind=False):
        key = unwind
        if key not in self._succ:
            self._succ[key] = [self.succ(i, unwind=unwind) for i in range(len(self.blocks))]
        return self._succ[key]

    def preds(self, unwind=False):
        s = self.succs(unwind)
        p = [[] for _ in self.blocks]
        for i, ss in enumerate(s):
            for j in ss:
                p[j].append(i)
        return p

    def reachable_from(self, start, unwind=False, removed_edges=(), removed_blocks=()):
        s = self.succs(unwind)
        seen = set()
        work = [start] if start not in removed_blocks else []
        while work:
            b = work.pop()
            if b in seen:
                continue
            seen.add(b)
            for n in s[b]:
                if (b, n) in removed_edges or n in removed_blocks:
                    continue
                if n not in seen:
                    work.append(n)
        return seen

    def dominates(self, a, b, unwind=False):
        """Block a dominates block b (every path entry->b passes through a)."""
        if a == b:
            return True
        return b not in self.reachable_from(0, unwind=unwind, removed_blocks=(a,))

    def edge_dominates(self, s, t, b, unwind=False):
        """Every path entry->b takes the edge s->t."""
        if b not in self.reachable_from(0, unwind=unwind):
            return False
        return b not in self.reachable_from(0, unwind=unwind, removed_edges=((s, t),))

    def return_blocks(self):
        return [i for i, b in enumerate(self.blocks) if b["term"]["k"] == "return"]

    def exit_blocks(self, unwind=True):
        ks = ("return", "resume", "terminate") if unwind else ("return",)
        return [i for i, b in enumerate(self.blocks) if b["term"]["k"] in ks]

    def normal_blocks(self):
        return self.reachable_from(0, unwind=False)

    def in_cycle(self, bb, unwind=False):
        for n in self.succs(unwind)[bb]:
            if bb in self.reachable_from(n, unwind=unwind):
                return True
        return False

    def back_edges(self, unwind=False):
        """(src, header) pairs where header dominates src."""
        out = []
        reach = self.reachable_from(0, unwind=unwind)
        for s in reach:
            for t in self.succs(unwind)[s]:
                if self.dominates(t, s, unwind=unwind):
                    out.append((s, t))
        return out

    def loop_body(self, header, unwind=False):
        """Blocks of the natural loop(s) with this header."""
        body = {header}
        p = self.preds(unwind)
        for s, t in self.back_edges(unwind):
            if t != header:
                continue
            work = [s]
            while work:
                x = work.pop()
                if x in body:
                    continue
                body.add(x)
                work.extend(p[x])
        return body

    # ---- sites --------------------------------------------------------------------------------
    def calls(self, pred=None, normal_only=False):
        if self._calls is None:
            self._calls = [CallSite(self, i, b["term"]) for i, b in enumerate(self.blocks)
                           if b["term"]["k"] in ("call", "tailcall")]
        out = self._calls
        if normal_only:
            nb = self.normal_blocks()
            out = [c for c in out if c.bb in nb]
        if pred is not None:
            out = [c for c in out if pred(c)]
        return out

    def calls_to(self, path=None, name=None, trait=None, path_re=None, normal_only=True):
        def p(c):
            cal = c.callee
            if "indirect" in cal:
                return False
            if path is not None and cal.get("path") != path and cal.get("resolved") != path:
                return False
            if name is not None and cal.get("name") != name:
                return False
            if trait is not None and cal.get("trait") != trait and cal.get("impl_trait") != trait:
                return False
            if path_re is not None and not (re.search(path_re, cal.get("path") or "") or
                                            re.search(path_re, cal.get("resolved") or "") or
                                            re.search(path_re, cal.get("full") or "")):
                return False
            return True
        return self.calls(p, normal_only=normal_only)

    def closure_defs(self):
        out = []
        for b in self.blocks:
            for s in b["stmts"]:
                if s["k"] == "assign" and s["rv"]["k"] == "agg" and s["rv"].get("ak") in (
                        "closure", "coroutine", "coroutine_closure"):
                    out.append(s["rv"]["def"])
        return out

    def statements(self, normal_only=True):
        nb = self.normal_blocks() if normal_only else range(len(self.blocks))
        for i in sorted(nb):
            for j, s in enumerate(self.blocks[i]["stmts"]):
                yield i, j, s

    def terminators(self, kind=None, normal_only=True):
        nb = self.normal_blocks() if normal_only else range(len(self.blocks))
        for i in sorted(nb):
            t = self.blocks[i]["term"]
            if kind is None or t["k"] == kind:
                yield i, t

    # ---- definitions / provenance -------------------------------------------------------------
    def defs(self):
        """local -> list of (bb, stmt index or 'term', kind, payload) for whole-local definitions;
        partial writes (to a projection) are recorded with kind 'partial'."""
        if self._defs is not None:
            return self._defs
        d = collections.defaultdict(list)
        for i, b in enumerate(self.blocks):
            for j, s in enumerate(b["stmts"]):
                if s["k"] == "assign":
                    pl = s["place"]
                    if "p" in pl:
                        d[pl["l"]].append((i, j, "partial", s))
                    else:
                        d[pl["l"]].append((i, j, "assign", s["rv"]))
                elif s["k"] == "setdiscr":
                    d[s["place"]["l"]].append((i, j, "partial", s))
            t = b["term"]
            if t["k"] == "call" and t.get("dest") is not None:
                pl = t["dest"]
                if "p" in pl:
                    d[pl["l"]].append((i, "term", "partial", t))
                else:
                    d[pl["l"]].append((i, "term", "call", t))
            elif t["k"] == "yield":
                pl = t["resume_arg"]
                d[pl["l"]].append((i, "term", "yield", t))
        self._defs = d
        return d

    def local_name(self, l):
        return self.locals[l].get("name")

    def local_ty(self, l):
        return self.locals[l]["ty"]

    def origin(self, x, depth=0, through_calls=(), _seen=None, _chooser=None):
        """Provenance of an operand / place / local as a nested tuple.

        ('param', i, name) | ('capture', name) | ('const', constdict) | ('call', CallSite)
        ('field', base, name) | ('index', base) | ('downcast', base, variant) | ('agg', rv, [origins])
        ('cast', base) | ('binop', op, a, b) | ('unop', op, a) | ('discr', base) | ('tlref', def)
        ('phi', [origins]) | ('local', i) | ('unknown',)
        Borrows and derefs are transparent.  `through_calls`: names of identity-like methods
        (e.g. by_ref, clone, borrow) whose result is treated as its receiver.
        """
        if _seen is None:
            _seen = set()
        if depth > 40:
            return ("unknown",)
        if isinstance(x, int):
            return self._origin_local(x, depth, through_calls, _seen, _chooser)
        if "c" in x:
            return self._origin_place(x["c"], depth, through_calls, _seen, _chooser)
        if "m" in x:
            return self._origin_place(x["m"], depth, through_calls, _seen, _chooser)
        if "l" in x:
            return self._origin_place(x, depth, through_calls, _seen, _chooser)
        if isinstance(x.get("k"), dict):
            return ("const", x["k"])
        return ("unknown",)

    def _origin_place(self, pl, depth, through_calls, seen, chooser=None):
        base = self._origin_local(pl["l"], depth + 1, through_calls, seen, chooser)
        for pr in pl.get("p", ()):
            if pr == "*" or pr == "opaque" or pr == "unbind":
                continue
            if "f" in pr:
                nm = pr.get("n", str(pr["f"]))
                # closure environment: _1.N / (*_1).N
                if base[0] == "param" and base[1] == 1 and self.kind == "Closure":
                    base = ("capture", nm, pr["f"])
                elif base[0] == "phi" and all(x[0] == "agg" and x[1].get("ak") in ("adt", "tuple") for x in base[1]):
                    alts = []
                    for x in base[1]:
                        idx = pr["f"]
                        if x[1].get("ak") == "adt" and x[1].get("fields") and len(x[1]["fields"]) == len(x[2]):
                            try:
                                idx = x[1]["fields"].index(nm)
                            except ValueError:
                                idx = pr["f"]
                        alts.append(x[2][idx] if idx < len(x[2]) else ("field", x, nm))
                    base = ("phi", alts, base[2] if len(base) > 2 else None)
                elif base[0] == "agg" and base[1].get("ak") in ("adt", "tuple", "closure") :
                    # projection out of a known aggregate: pick the operand
                    idx = pr["f"]
                    if base[1].get("ak") == "adt" and base[1].get("fields") and len(base[1]["fields"]) == len(base[2]):
                        try:
                            idx = base[1]["fields"].index(nm)
                        except ValueError:
                            idx = pr["f"]
                    if idx < len(base[2]):
                        base = base[2][idx]
                    else:
                        base = ("field", base, nm)
                else:
                    base = ("field", base, nm)
            elif "d" in pr:
                base = ("downcast", base, pr["d"])
            elif "idx" in pr:
                # keep the index value's provenance as a third element (constant indices into fixed arrays matter)
                try:
                    io = self._origin_local(pr["idx"], depth + 1, through_calls, seen, chooser)
                except Exception:
                    io = ("unknown",)
                base = ("index", base, io)
            elif "cidx" in pr or "sub_from" in pr:
                base = ("index", base)
        return base

    def _origin_local(self, l, depth, through_calls, seen, chooser=None):
        if 1 <= l <= self.argc:
            ds = [d for d in self.defs().get(l, ()) if d[2] != "partial"]
            if not ds:
                return ("param", l, self.local_name(l))
        if (l, depth > 0) in seen and depth > 25:
            return ("local", l)
        ds = [d for d in self.defs().get(l, ()) if not self.blocks[d[0]]["cleanup"]]
        whole = [d for d in ds if d[2] != "partial"]
        if len(whole) == 0:
            if 1 <= l <= self.argc:
                return ("param", l, self.local_name(l))
            return ("local", l)
        if len(whole) > 1 and chooser is not None:
            d = chooser(whole)
            if d is not None:
                return self._origin_def(d, depth + 1, through_calls, seen, chooser)
        if len(whole) > 1:
            if depth > 12:
                return ("local", l)
            key = ("phi", l)
            if key in seen:
                return ("local", l)
            seen = seen | {key}
            outs = []
            for d in whole:
                outs.append(self._origin_def(d, depth + 1, through_calls, seen, chooser))
            return ("phi", outs, l)
        return self._origin_def(whole[0], depth + 1, through_calls, seen, chooser)

    def _origin_def(self, d, depth, through_calls, seen, chooser=None):
        bb, j, kind, payload = d
        if kind == "call":
            cs = CallSite(self, bb, payload)
            nm = cs.callee.get("name")
            if cs.args and (through_calls(nm) if callable(through_calls) else nm in through_calls):
                return self.origin(cs.args[0], depth + 1, through_calls, seen, chooser)
            return ("call", cs)
        if kind == "yield":
            return ("yield", bb)
        rv = payload
        k = rv["k"]
        if k == "use":
            return self.origin(rv["op"], depth + 1, through_calls, seen, chooser)
        if k in ("ref", "rawptr"):
            return self._origin_place(rv["place"], depth + 1, through_calls, seen, chooser)
        if k == "cast":
            inner = self.origin(rv["op"], depth + 1, through_calls, seen, chooser)
            ck = rv.get("ck", "")
            if "Unsize" in ck or "PointerCoercion" in ck or "Transmute" in ck and False:
                return inner
            return ("cast", inner, rv.get("ty"), rv.get("from_ty"))
        if k == "agg":
            return ("agg", rv, [self.origin(o, depth + 1, through_calls, seen, chooser) for o in rv["ops"]])
        if k == "binop":
            return ("binop", rv["op"], self.origin(rv["a"], depth + 1, through_calls, seen, chooser),
                    self.origin(rv["b"], depth + 1, through_calls, seen, chooser), self._op_ty(rv["a"]))
        if k == "unop":
            return ("unop", rv["op"], self.origin(rv["a"], depth + 1, through_calls, seen, chooser))
        if k == "discr":
            return ("discr", self._origin_place(rv["place"], depth + 1, through_calls, seen, chooser))
        if k == "tlref":
            return ("tlref", rv["def"])
        if k == "repeat":
            return ("repeat", self.origin(rv["op"], depth + 1, through_calls, seen, chooser))
        return ("unknown",)

    # ---- uses -----------------------------------------------------------------------------------
    @staticmethod
    def _op_local(o):
        if "c" in o:
            return o["c"]["l"]
        if "m" in o:
            return o["m"]["l"]
        return None

    @staticmethod
    def rvalue_operands(rv):
        k = rv["k"]
        if k in ("use", "cast", "repeat"):
            return [rv["op"]]
        if k == "binop":
            return [rv["a"], rv["b"]]
        if k == "unop":
            return [rv["a"]]
        if k == "agg":
            return list(rv["ops"])
        return []

    def uses(self, local, normal_only=True):
        """Sites reading `local` (as operand base or borrowed/discriminated place)."""
        out = []
        blocks = self.normal_blocks() if normal_only else range(len(self.blocks))
        for i in sorted(blocks):
            b = self.blocks[i]
            for j, s in enumerate(b["stmts"]):
                if s["k"] != "assign":
                    continue
                rv = s["rv"]
                hit = any(self._op_local(o) == local for o in self.rvalue_operands(rv))
                if not hit and rv["k"] in ("ref", "rawptr", "discr") and rv["place"]["l"] == local:
                    hit = True
                if hit:
                    out.append((i, j, "stmt", s))
            t = b["term"]
            k = t["k"]
            if k in ("call", "tailcall"):
                if any(self._op_local(a) == local for a in t["args"]):
                    out.append((i, "term", "call", t))
                elif "indirect" in t["callee"] and self._op_local(t["callee"]["op"]) == local:
                    out.append((i, "term", "call", t))
            elif k == "switch" and self._op_local(t["discr"]) == local:
                out.append((i, "term", "switch", t))
            elif k == "assert" and self._op_local(t["cond"]) == local:
                out.append((i, "term", "assert", t))
            elif k == "yield" and self._op_local(t["value"]) == local:
                out.append((i, "term", "yield", t))
        return out

    def value_aliases(self, local):
        """Locals that receive the value of `local` through plain moves/copies (whole-local)."""
        al = {local}
        changed = True
        while changed:
            changed = False
            for i, j, s in self.statements(normal_only=True):
                if s["k"] == "assign" and "p" not in s["place"] and s["rv"]["k"] == "use":
                    o = s["rv"]["op"]
                    src = o.get("c") or o.get("m")
                    if src is not None and "p" not in src and src["l"] in al and s["place"]["l"] not in al:
                        al.add(s["place"]["l"])
                        changed = True
        return al

    def origin_at(self, x, bb, **kw):
        """Provenance where a multiply-defined local resolves to its closest definition that dominates
        block `bb` (the value flowing into bb on every path), when there is one."""
        def choose(defs):
            cands = [d for d in defs if (d[0] != bb and self.dominates(d[0], bb)) or (d[0] == bb and d[1] != "term")]
            if not cands:
                return None
            best = cands[0]
            for d in cands[1:]:
                if self.dominates(best[0], d[0]) and best[0] != d[0]:
                    best = d
                elif best[0] == d[0] and str(d[1]) > str(best[1]):
                    best = d
            return best
        return self.origin(x, _chooser=choose, **kw)

    def _op_ty(self, op):
        pl = op.get("c") or op.get("m")
        if pl is not None and "p" not in pl:
            return self.local_ty(pl["l"])
        k = op.get("k")
        if isinstance(k, dict):
            return k.get("ty")
        return None

    # ---- switch helpers -------------------------------------------------------------------------
    def switches(self, normal_only=True):
        for i, t in self.terminators("switch", normal_only=normal_only):
            yield i, t

    def switch_origin(self, bb, **kw):
        t = self.blocks[bb]["term"]
        return self.origin(t["discr"], **kw)

    def guards_of(self, bb, unwind=False):
        """[(switch_bb, value or 'otherwise', target)] of switch edges that dominate `bb`."""
        out = []
        for i, t in self.switches(normal_only=not unwind):
            tg = [(v, n) for v, n in t["targets"]] + [("otherwise", t["otherwise"])]
            # group by target (a target reached by several values is guarded by their union)
            by_t = collections.defaultdict(list)
            for v, n in tg:
                by_t[n].append(v)
            if len(by_t) < 2:
                continue
            for n, vs in by_t.items():
                if self.edge_dominates(i, n, bb, unwind=unwind):
                    out.append((i, vs, n))
        return out

    # ---- counting on paths ------------------------------------------------------------------------
    def count_on_paths(self, site_blocks, start=0, ends=None, unwind=False, weight=None):
        """(min, max) number of visits to blocks in `site_blocks` (a set, or dict bb->weight) over
        all paths start->ends (default: return blocks).  max is float('inf') if a site lies on a cycle
        that can reach an end.  Returns None if no end is reachable."""
        if not isinstance(site_blocks, dict):
            site_blocks = {b: 1 for b in site_blocks}
        if ends is None:
            ends = self.return_blocks()
        ends = set(ends)
        succ = self.succs(unwind)
        reach = self.reachable_from(start, unwind=unwind)
        # blocks that can reach an end
        pre = self.preds(unwind)
        can = set()
        work = [e for e in ends if e in reach]
        while work:
            b = work.pop()
            if b in can:
                continue
            can.add(b)
            work.extend(p for p in pre[b] if p in reach)
        if not can:
            return None
        nodes = can
        # min: Dijkstra-like relaxation (weights >= 0)
        INF = float("inf")
        mn = {b: INF for b in nodes}
        mn[start] = site_blocks.get(start, 0)
        changed = True
        order = list(nodes)
        while changed:
            changed = False
            for b in order:
                if mn[b] == INF:
                    continue
                if b in ends:
                    pass
                for n in succ[b]:
                    if n in nodes:
                        v = mn[b] + site_blocks.get(n, 0)
                        if v < mn[n]:
                            mn[n] = v
                            changed = True
        # max: if any weighted node is on a cycle within nodes -> inf; else longest path on DAG-ish
        # compute SCCs restricted to nodes
        sccs = _sccs(nodes, lambda b: [n for n in succ[b] if n in nodes])
        comp = {}
        for idx, c in enumerate(sccs):
            for b in c:
                comp[b] = idx
        cyc = set()
        for idx, c in enumerate(sccs):
            if len(c) > 1 or any(b in succ[b] for b in c):
                cyc.add(idx)
        mx_inf = any(comp[b] in cyc and site_blocks.get(b, 0) > 0 for b in nodes)
        if mx_inf:
            mxv = INF
        else:
            # longest path over condensation (sccs are in reverse topological order from Tarjan)
            cw = [sum(site_blocks.get(b, 0) for b in c) for c in sccs]
            best = [None] * len(sccs)
            start_c = comp[start]
            # process in topological order: Tarjan yields reverse topo, so iterate reversed
            best[start_c] = cw[start_c]
            for idx in reversed(range(len(sccs))):
                if best[idx] is None:
                    continue
                for b in sccs[idx]:
                    for n in succ[b]:
                        if n in nodes and comp[n] != idx:
                            v = best[idx] + cw[comp[n]]
                            if best[comp[n]] is None or v > best[comp[n]]:
                                best[comp[n]] = v
            mxv = max(best[comp[e]] for e in ends if e in nodes and best[comp[e]] is not None)
        mnv = min(mn[e] for e in ends if e in nodes)
        return (mnv, mxv)

    def must_pass(self, through, start=0, ends=None, unwind=False):
        """Every path start->ends passes through a block in `through`."""
        if ends is None:
            ends = self.return_blocks()
        r = self.reachable_from(start, unwind=unwind, removed_blocks=set(through))
        return not any(e in r for e in ends)

    def acyclic_paths(self, start, end, unwind=False, limit=20000):
        """Enumerate simple paths start->end (lists of blocks)."""
        succ = self.succs(unwind)
        can = set()
        pre = self.preds(unwind)
        work = [end]
        while work:
            b = work.pop()
            if b in can:
                continue
            can.add(b)
            work.extend(pre[b])
        out = []
        stack = [(start, [start])]
        while stack:
            b, path = stack.pop()
            if b == end:
                out.append(path)
                if len(out) > limit:
                    raise RuntimeError("too many paths")
                continue
            for n in succ[b]:
                if n in can and n not in path:
                    stack.append((n, path + [n]))
        return out

    def feasible_paths(self, start, end, limit=50000):
        """Acyclic paths start->end that are not contradicted by constant boolean flags: a switch whose
        operand is, on that path, a (possibly negated) boolean constant must take the matching edge."""
        out = []
        for p in self.acyclic_paths(start, end, limit=limit):
            ps = PathSummary(self, p)
            ok = True
            for bb, o, vals in ps.decisions():
                neg = False
                while o[0] == "unop" and o[1] == "Not":
                    o = o[2]
                    neg = not neg
                v = o_const_value(o)
                if isinstance(v, bool):
                    t = truthy(vals)
                    if t is not None and t != (v != neg):
                        ok = False
                        break
            if ok:
                out.append(p)
        return out

    # ---- guard liveness -----------------------------------------------------------------------------
    def held_region(self, local, def_bb, unwind=True):
        """Program points (bb, 'entry') at which an owned value first stored in `local` (defined by
        the terminator of def_bb) may still be held: forward from the definition until a Drop
        terminator on (an alias of) it or a move of it into a call.  Moves between locals are
        followed.  Returns (held_blocks: set of blocks entered while held,
                            held_at_term: set of blocks whose terminator executes while held,
                            release_sites: list of (bb, how))."""
        succ_all = self.succs(unwind)
        # state: frozenset of locals that currently hold the value
        start_succ = [s for s in self.succ(def_bb, unwind=False)]
        held_entry = collections.defaultdict(set)
        work = [(s, frozenset([local])) for s in start_succ]
        held_at_term = set()
        releases = []
        seen = set()
        while work:
            bb, held = work.pop()
            if (bb, held) in seen:
                continue
            seen.add((bb, held))
            held_entry[bb] |= set(held)
            cur = set(held)
            blk = self.blocks[bb]
            for s in blk["stmts"]:
                if s["k"] == "assign":
                    rv = s["rv"]
                    dst = s["place"]
                    if rv["k"] == "use" and "m" in rv["op"] and "p" not in rv["op"]["m"] and rv["op"]["m"]["l"] in cur:
                        cur.discard(rv["op"]["m"]["l"])
                        if "p" not in dst:
                            cur.add(dst["l"])
                        else:
                            cur.add(dst["l"])  # stored into a field of another local: track the container
                    elif rv["k"] == "agg":
                        for o in rv["ops"]:
                            if "m" in o and "p" not in o["m"] and o["m"]["l"] in cur:
                                cur.discard(o["m"]["l"])
                                cur.add(dst["l"])
            t = blk["term"]
            k = t["k"]
            if not cur:
                continue
            released = False
            if k == "drop" and "p" not in t["place"] and t["place"]["l"] in cur:
                held_at_term.add(bb)  # the drop itself happens while held (it is the release)
                releases.append((bb, "drop"))
                cur.discard(t["place"]["l"])
                released = not cur
            elif k == "call":
                moved = [a["m"]["l"] for a in t["args"] if "m" in a and "p" not in a["m"] and a["m"]["l"] in cur]
                if moved:
                    releases.append((bb, "moved into %s" % (t["callee"].get("path") or "indirect call")))
                    for m in moved:
                        cur.discard(m)
                    if cur:
                        held_at_term.add(bb)
                    released = not cur
                else:
                    held_at_term.add(bb)
            elif k == "return":
                held_at_term.add(bb)
                # returned while held (moved to caller)
                releases.append((bb, "returned"))
                continue
            else:
                held_at_term.add(bb)
            nxt = frozenset(cur)
            for n in self.succ(bb, unwind=unwind):
                if released and n == t.get("t"):
                    continue
                if released:
                    # unwind edge of the releasing drop: rust drops are considered to have released
                    continue
                work.append((n, nxt))
        return dict(held_entry), held_at_term, releases


def _sccs(nodes, succ):
    """Tarjan; returns list of components in reverse topological order."""
    index = {}
    low = {}
    onst = set()
    st = []
    out = []
    counter = [0]
    for root in nodes:
        if root in index:
            continue
        work = [(root, iter(succ(root)))]
        index[root] = low[root] = counter[0]
        counter[0] += 1
        st.append(root)
        onst.add(root)
        while work:
            v, it = work[-1]
            adv = False
            for w in it:
                if w not in index:
                    index[w] = low[w] = counter[0]
                    counter[0] += 1
                    st.append(w)
                    onst.add(w)
                    work.append((w, iter(succ(w))))
                    adv = True
                    break
                elif w in onst:
                    low[v] = min(low[v], index[w])
            if adv:
                continue
            work.pop()
            if work:
                u = work[-1][0]
                low[u] = min(low[u], low[v])
            if low[v] == index[v]:
                comp = []
                while True:
                    w = st.pop()
                    onst.discard(w)
                    comp.append(w)
                    if w == v:
                        break
                out.append(comp)
    return out


# ---- origin helpers ---------------------------------------------------------------------------

def o_kind(o):
    return o[0]


def o_is_param(o, name=None, idx=None):
    return o[0] == "param" and (name is None or o[2] == name) and (idx is None or o[1] == idx)


def o_is_capture(o, name=None):
    return o[0] == "capture" and (name is None or o[1] == name)


def o_is_call(o, name=None, path=None, trait=None):
    if o[0] != "call":
        return False
    c = o[1].callee
    if name is not None and c.get("name") != name:
        return False
    if path is not None and c.get("path") != path:
        return False
    if trait is not None and c.get("trait") != trait and c.get("impl_trait") != trait:
        return False
    return True


def o_const_value(o):
    """The evaluated value of a constant origin: python int / bool / str / bytes, or None."""
    if o[0] != "const":
        return None
    v = o[1].get("v")
    if v is None:
        return None
    if "str" in v:
        return v["str"]
    if "bool" in v:
        return v["bool"]
    if "int" in v:
        return int(v["int"])
    if "bytes" in v:
        return bytes(v["bytes"])
    return None


def o_field_path(o):
    """('field', ('field', ('param',1,'self'), 'a'), 'b') -> (root, ['a','b'])"""
    names = []
    while o[0] in ("field", "downcast", "index"):
        if o[0] == "field":
            names.append(o[2])
        o = o[1]
    return o, list(reversed(names))


def o_root(o):
    """strip field/downcast/index/ref/deref/cast/copy projections off an origin"""
    d = 0
    while o[0] in ("field", "downcast", "index", "ref", "deref", "cast", "copy") and d < 40:
        o = o[1]
        d += 1
    return o


def o_str(o, depth=0):
    if depth > 6:
        return "…"
    k = o[0]
    if k == "param":
        return "param(%s)" % (o[2] or o[1])
    if k == "capture":
        return "capture(%s)" % o[1]
    if k == "const":
        v = o_const_value(o)
        if v is not None:
            return "const(%r)" % (v,)
        return "const(%s)" % (o[1].get("def") or o[1].get("fn") or o[1].get("ty"))
    if k == "call":
        return "call(%s)" % (o[1].callee.get("full") or o[1].callee.get("path") or "indirect")
    if k == "field":
        return "%s.%s" % (o_str(o[1], depth + 1), o[2])
    if k == "downcast":
        return "(%s as %s)" % (o_str(o[1], depth + 1), o[2])
    if k == "index":
        return "%s[%s]" % (o_str(o[1], depth + 1), o_str(o[2], depth + 1) if len(o) > 2 else "..")
    if k == "agg":
        rv = o[1]
        nm = rv.get("adt") or rv.get("def") or rv.get("ak")
        return "%s{%s}" % (nm, ", ".join(o_str(x, depth + 1) for x in o[2]))
    if k == "phi":
        return "phi(%s)" % " | ".join(o_str(x, depth + 1) for x in o[1])
    if k in ("cast", "discr", "repeat"):
        return "%s(%s)" % (k, o_str(o[1], depth + 1))
    if k == "binop":
        return "(%s %s %s)" % (o_str(o[2], depth + 1), o[1], o_str(o[3], depth + 1))
    if k == "unop":
        return "%s(%s)" % (o[1], o_str(o[2], depth + 1))
    if k == "local":
        return "_%d" % o[1]
    if k == "tlref":
        return "tls(%s)" % o[1]
    return k


# ---- path-sensitive summaries ---------------------------------------------------------------------

class PathSummary:
    """One acyclic normal path entry->end: ordered events and path-sensitive provenance."""

    def __init__(self, body, blocks):
        self.body = body
        self.blocks = blocks
        self.pos = {b: i for i, b in enumerate(blocks)}

    def calls(self, pred=None):
        out = []
        for b in self.blocks:
            t = self.body.blocks[b]["term"]
            if t["k"] == "call":
                cs = CallSite(self.body, b, t)
                if pred is None or pred(cs):
                    out.append(cs)
        return out

    def decisions(self):
        """[(switch_bb, discr_origin, taken_values or ('otherwise', excluded))] along the path."""
        out = []
        for i, b in enumerate(self.blocks[:-1]):
            t = self.body.blocks[b]["term"]
            if t["k"] != "switch":
                continue
            nxt = self.blocks[i + 1]
            vals = [v for v, n in t["targets"] if n == nxt]
            o = self.origin(t["discr"], at=i)
            if vals and t["otherwise"] != nxt:
                out.append((b, o, tuple(vals)))
            elif t["otherwise"] == nxt:
                excl = tuple(v for v, n in t["targets"] if n != nxt)
                out.append((b, o, ("otherwise", excl)))
        return out

    def origin(self, x, at=None, **kw):
        """Provenance where multiply-defined locals are resolved to the last definition on this path
        before position `at` (index into blocks; default: end of path)."""
        if at is None:
            at = len(self.blocks) - 1
        return self.body.origin(x, _chooser=lambda defs: self._choose(defs, at), **kw)

    def _choose(self, defs, at):
        best = None
        bestk = None
        for d in defs:
            p = self.pos.get(d[0])
            if p is None or p > at:
                continue
            if p == at and d[1] == "term":
                continue
            k = (p, 10 ** 9 if d[1] == "term" else d[1])
            if bestk is None or k > bestk:
                best, bestk = d, k
        return best

    def ret(self, **kw):
        return self.origin(0, **kw)


def truthy(values):
    """Interpret a bool switch decision: ('0',) -> False, ('otherwise', ('0',)) -> True."""
    if values == ("0",):
        return False
    if values and values[0] == "otherwise" and values[1] == ("0",):
        return True
    if values == ("1",):
        return True
    if values and values[0] == "otherwise" and values[1] == ("1",):
        return False
    return None


_FLIP_CMP = {"Lt": "Gt", "Gt": "Lt", "Le": "Ge", "Ge": "Le", "Eq": "Eq", "Ne": "Ne"}


def norm_cmp(o, left_pred):
    """Canonical form of a comparison origin: returns (op, lhs, rhs) with the side satisfying left_pred on the left (operands and
    operator flipped if the source wrote it the other way round: `max <= len`  ==  `len >= max`), looking through `!`.  None if
    `o` is not a comparison or no side satisfies the predicate."""
    neg = False
    while o[0] == "unop" and o[1] == "Not":
        o = o[2]
        neg = not neg
    if o[0] == "call" and o[1].callee.get("name") in ("lt", "le", "gt", "ge", "eq", "ne") and len(o[1].args) == 2:
        op = o[1].callee.get("name").capitalize()
        l, r = o[1].body.origin(o[1].args[0], through_calls=("deref",)), o[1].body.origin(o[1].args[1], through_calls=("deref",))
    elif o[0] == "binop" and o[1] in _FLIP_CMP:
        op, l, r = o[1], o[2], o[3]
    else:
        return None
    if neg:
        op = {"Lt": "Ge", "Ge": "Lt", "Gt": "Le", "Le": "Gt", "Eq": "Ne", "Ne": "Eq"}[op]
    if left_pred(l):
        return op, l, r
    if left_pred(r):
        return _FLIP_CMP[op], r, l
    return None


def norm_bool(o):
    """(base, positive?) of a boolean test origin, looking through `!x`, `x == true`, `x != false`, `x == false`, `x != true`."""
    pos = True
    d = 0
    while d < 8:
        d += 1
        if o[0] == "unop" and o[1] == "Not":
            o = o[2]
            pos = not pos
            continue
        if o[0] == "binop" and o[1] in ("Eq", "Ne"):
            for a, c in ((o[2], o[3]), (o[3], o[2])):
                v = o_const_value(c)
                if isinstance(v, bool):
                    same = (o[1] == "Eq") == v
                    o = a
                    pos = pos if same else (not pos)
                    break
            else:
                return o, pos
            continue
        return o, pos
    return o, pos
