"""C13 — the bridge from an arbitrary captured value (sval events) to OTLP's AnyValue (emit_otlp::data::any_value, `AnyStream`).

The bridge is a hand-written `sval::Stream`: each event it receives is re-emitted to the underlying encoder wrapped in the enum / record
frames of the AnyValue schema.  Its correctness is a bracket grammar: what a method (or a begin/end pair of methods) opens it closes, in
reverse order and under the same (label, index); a scalar is forwarded, once, between its opening and closing frames; pure forwarders hand
on what they were given.  The rule reads, for every method, the ordered calls on `self.stream` along its *success path* (every `?` taking
the Continue edge, the `in_map_key` test taking the edge for the flag value considered), expands the two private helpers, and checks the
token sequences.  The `todo!()` arms for non-string map keys are known finding D8 and are not part of a success path."""
import os
import re

from . import common, mir
from .mir import o_str


def _label_values():
    from . import facts
    p = os.path.join(facts.REPO, "emitter/otlp/src/data/any_value.rs")
    try:
        s = open(p).read().split("#[cfg(test)]")[0]
    except OSError:
        return {}
    labels = dict(re.findall(r"const\s+([A-Z0-9_]+)_LABEL\s*:\s*sval::Label\s*=\s*sval::Label::new\(\s*\"([^\"]+)\"\s*\)", s, re.S))
    indexes = {k: int(v) for k, v in re.findall(r"const\s+([A-Z0-9_]+)_INDEX\s*:\s*sval::Index\s*=\s*sval::Index::new\(\s*(\d+)\s*\)", s, re.S)}
    return {k: (labels[k], indexes.get(k)) for k in labels}


def _flag_of(b, so):
    so, pos = mir.norm_bool(so)
    names = mir.o_field_path(so)[1] if so[0] in ("field", "deref", "copy") else None
    if names and names[-1:] == ["in_map_key"]:
        return pos
    return None


def success_paths(b, flag):
    """block paths entry -> return on which every `?` continues and the in_map_key test sees `flag`"""
    out = []
    for rb in b.return_blocks():
        for path in b.acyclic_paths(0, rb, limit=400):
            ok = True
            for i, bb in enumerate(path[:-1]):
                t = b.blocks[bb]["term"]
                if t["k"] != "switch":
                    continue
                nxt = path[i + 1]
                so = b.switch_origin(bb)
                vals = [str(v) for v, n in t["targets"] if n == nxt] or (["otherwise"] if t["otherwise"] == nxt else [])
                if so[0] == "discr" and mir.o_is_call(so[1], name="branch"):
                    if "0" not in vals:
                        ok = False
                        break
                    continue
                pos = _flag_of(b, so)
                if pos is not None:
                    taken_true = any(v != "0" for v in vals)
                    if (taken_true == pos) != flag:
                        ok = False
                        break
            if ok:
                # a path that returns an error (built in place, or the residual of a `?` written as a match) is not a success path
                r = mir.PathSummary(b, path).ret()
                if (r[0] == "agg" and r[1].get("variant") == "Err") or (r[0] == "call" and (r[1].callee.get("name") == "from_residual" or
                                                                                      re.search(r"(^|::)sval::(result::)?error$", r[1].callee.get("path") or ""))):
                    continue
                out.append(path)
    return out


def tokens(P, b, path, helpers, subst=None):
    """ordered (name, label stem | None, CallSite) for the calls on self.stream along a path; helper calls expanded"""
    out = []
    for bb in path:
        t = b.blocks[bb]["term"]
        if t["k"] != "call":
            continue
        c = mir.CallSite(b, bb, t)
        nm = c.callee.get("name")
        tgt = c.callee.get("resolved") or c.callee.get("path")
        if tgt in helpers and c.args:
            hb = helpers[tgt]
            lab = _label_of(b, c, subst)
            hp = success_paths(hb, False)
            if len(hp) != 1:
                raise mir.AnchorMissing("one success path through %s (found %d)" % (tgt, len(hp)))
            out.extend(tokens(P, hb, hp[0], helpers, subst=lab))
            continue
        if not c.args:
            continue
        names = mir.o_field_path(b.origin(c.args[0], through_calls=("deref_mut", "deref")))[1]
        if names[-1:] != ["stream"]:
            continue
        out.append((nm, _label_of(b, c, subst), c))
    return out


def _label_of(b, c, subst):
    for a in c.args[1:]:
        rs = common.roots(b.origin(a))
        for k, v in rs:
            if k == "const" and isinstance(v, str) and v.endswith("_LABEL"):
                return v.rsplit("::", 1)[-1][:-len("_LABEL")]
            if k == "param" and subst is not None and v >= 2:
                return subst
    return None


def balanced(toks, values):
    """None if the token sequence is a well-nested bracket word, else a description of the first defect"""
    def val(stem):
        return values.get(stem, stem) if stem is not None else None
    st = []
    for nm, lab, c in toks:
        if nm.endswith("_begin"):
            st.append((nm[:-len("_begin")], lab, c))
        elif nm.endswith("_end"):
            kind = nm[:-len("_end")]
            if not st:
                return "`%s` at %s closes a frame that was not opened" % (nm, c.loc)
            k0, l0, c0 = st.pop()
            if k0 != kind:
                return "`%s` at %s closes the `%s_begin` opened at %s" % (nm, c.loc, k0, c0.loc)
            if val(l0) != val(lab):
                return "`%s` at %s closes under label %s what was opened under %s at %s" % (nm, c.loc, lab, l0, c0.loc)
    if st:
        return "`%s_begin` at %s is never closed" % (st[-1][0], st[-1][2].loc)
    return None


def rules(chk, P, prefix="C13.R7"):
    values = _label_values()
    meths, helpers = {}, {}
    for k, b in P.bodies.items():
        if b.is_closure or "any_value" not in b.file:
            continue
        if "AnyStream<S> as sval::stream::Stream" in k:
            meths[b.method or b.name] = b
        elif re.search(r"AnyStream::<S>::any_value_(begin|end)$", k):
            helpers[k] = b
    chk.floor("methods of the AnyValue bridge (impl sval::Stream for AnyStream)", len(meths), 20)

    def toks(name, flag):
        b = meths.get(name)
        if b is None:
            raise mir.AnchorMissing("AnyStream::%s" % name)
        ps = success_paths(b, flag)
        if not ps:
            return None       # no success path for this flag value (the todo!() arm)
        seqs = {tuple((n, l) for n, l, c in tokens(P, b, p, helpers)) for p in ps}
        if len(seqs) != 1:
            raise mir.AnchorMissing("one token sequence for AnyStream::%s (in_map_key=%s), found %d" % (name, flag, len(seqs)))
        return tokens(P, b, ps[0], helpers)

    def scalar(name):
        def f():
            b = meths[name]
            t = toks(name, False)
            if t is None:
                raise mir.AnchorMissing("success path of AnyStream::%s" % name)
            d = balanced(t, values)
            if d:
                return False, "AnyStream::%s: %s" % (name, d), [], b.span
            fw = [(n, l, c) for n, l, c in t if n == name]
            if len(fw) != 1 or not mir.o_is_param(b.origin(fw[0][2].args[1]), idx=2):
                return False, ("AnyStream::%s does not hand its value to the encoder's `%s` exactly once between the frames it opens: the value is missing "
                               "from (or doubled in) the exported attribute" % (name, name)), [], b.span
            opens = [x for x in t if x[0].endswith("_begin")]
            if not opens or t.index(fw[0]) < t.index(opens[-1]):
                return False, "AnyStream::%s writes its value outside the AnyValue frame" % name, [], fw[0][2].loc
            return True, "", [c.loc for n, l, c in t]
        return f
    scalars = [n for n in meths if not n.endswith(("_begin", "_end")) and "fragment" not in n and n not in ("null", "tag", "tagged_begin", "tagged_end")]
    for n in sorted(scalars):
        chk.ob("%s:scalar:%s" % (prefix, n), "a %s is written once, inside a well-nested AnyValue frame of its own kind" % n, scalar(n))
    chk.floor("scalar methods of the AnyValue bridge", len(scalars), 3)

    def group(names, label, inner=()):
        def f():
            ev = []
            for flag in (False, True):
                seq = []
                missing = False
                for n in names:
                    t = toks(n, flag)
                    if t is None:
                        missing = True
                        break
                    seq.extend(t)
                    if n in dict(inner):
                        for m in dict(inner)[n]:
                            t2 = toks(m, flag)
                            if t2 is None:
                                missing = True
                                break
                            seq.extend(t2)
                if missing:
                    continue
                d = balanced(seq, values)
                if d:
                    return False, "%s (in_map_key=%s): %s - the payload would not decode / parse" % (label, flag, d), [], meths[names[0]].span
                ev.append("in_map_key=%s: %s" % (flag, " ".join(n for n, l, c in seq)))
            if not ev:
                raise mir.AnchorMissing("a success path through %s" % label)
            return True, "", ev
        return f
    chk.ob("%s:frames:text" % prefix, "text_begin .. text_end open and close the same frames", group(["text_begin", "text_end"], "text"))
    chk.ob("%s:frames:binary" % prefix, "binary_begin .. binary_end open and close the same frames", group(["binary_begin", "binary_end"], "binary"))
    chk.ob("%s:frames:seq" % prefix, "seq_begin, an element, seq_end open and close the same frames",
           group(["seq_begin", "seq_value_begin", "seq_value_end", "seq_end"], "a sequence"))
    chk.ob("%s:frames:map" % prefix, "map_begin, one entry (key, value), map_end open and close the same frames",
           group(["map_begin", "map_key_begin", "map_key_end", "map_value_begin", "map_value_end", "map_end"], "a map"))

    def forwarders():
        ev = []
        for n in ("text_fragment", "text_fragment_computed", "binary_fragment", "binary_fragment_computed", "null"):
            if n not in meths:
                continue
            b = meths[n]
            for flag in (False, True):
                t = toks(n, flag)
                if t is None:
                    continue
                if [x[0] for x in t] != [n]:
                    return False, "AnyStream::%s must hand exactly its own event to the encoder, found %s" % (n, [x[0] for x in t]), [], b.span
                c = t[0][2]
                for i in range(2, b.argc + 1):
                    if not any(mir.o_is_param(b.origin(a), idx=i) for a in c.args[1:]):
                        return False, "AnyStream::%s does not pass on its parameter %s" % (n, b.local_name(i)), [], c.loc
            ev.append(b.span)
        # each of the four fragment events has its own forwarder: sval's provided `*_fragment_computed` methods fall back to the borrowed form or - for
        # bytes - replay the fragment byte by byte through the bridge as a sequence of integers, inside the bytesValue frame that is open
        lacking = [n for n in ("text_fragment", "text_fragment_computed", "binary_fragment", "binary_fragment_computed") if n not in meths]
        if lacking:
            return False, ("the AnyValue bridge does not override %s: sval's provided method does not forward the fragment as it is (computed bytes are "
                           "replayed one integer per byte inside the open bytesValue field - the payload no longer decodes)" % lacking), [], None
        if len(ev) < 4:
            raise mir.AnchorMissing("fragment forwarders of the AnyValue bridge (found %d)" % len(ev))
        return True, "", ev
    chk.ob("%s:forwarders" % prefix, "text / binary fragments (and null) are handed to the encoder unchanged", forwarders)

    def key_flag():
        ev = []
        for n, want in (("map_key_begin", True), ("map_key_end", False)):
            b = meths[n]
            w = [(bb, st) for bb, j, st in b.statements(normal_only=True) if st["k"] == "assign" and st["place"].get("p") and
                 [p.get("n") for p in st["place"]["p"] if isinstance(p, dict) and "n" in p][-1:] == ["in_map_key"]]
            if len(w) != 1 or mir.o_const_value(b.origin(w[0][1]["rv"]["op"])) is not want or not b.must_pass({w[0][0]}):
                return False, ("AnyStream::%s must set in_map_key to %s on every path: the flag decides whether the text that follows is a bare map key or "
                               "a stringValue" % (n, str(want).lower())), [], b.span
            ev.append("%s:%s" % (b.file, w[0][1].get("line")))
        return True, "", ev
    chk.ob("%s:key-flag" % prefix, "in_map_key is raised for exactly the extent of a map key", key_flag)


def _stream_tokens(b, path):
    """ordered tokens of a block path: calls of sval::Stream methods, and any other call that is handed the stream (a value is written through it)"""
    roots = set()
    for c in b.calls(normal_only=True):
        if "sval::stream::Stream" in (c.callee.get("trait") or "") and c.args:
            for r in common.roots(b.origin(c.args[0], through_calls=("deref_mut", "deref"))):
                if r[0] in ("param", "capture"):
                    roots.add(r)
    t = []
    for bb in path:
        tm = b.blocks[bb]["term"]
        if tm["k"] != "call":
            continue
        c = mir.CallSite(b, bb, tm)
        if not c.args:
            continue
        if "sval::stream::Stream" in (c.callee.get("trait") or ""):
            t.append((c.callee.get("name"), _label_of(b, c, None), c))
            continue
        nm = c.callee.get("name") or ""
        if nm in ("branch", "from_residual", "deref", "deref_mut", "drop", "from_output", "into_iter", "next", "as_ref", "as_mut"):
            continue
        for a in c.args:
            if roots & {r for r in common.roots(b.origin(a, through_calls=("deref_mut", "deref"))) if r[0] in ("param", "capture")}:
                t.append(("<value:%s>" % nm, None, c))
                break
    return t


def _success_subpaths(b, start, end, allowed):
    """block paths start -> end inside `allowed` on which every `?` continues"""
    out = []
    for path in b.acyclic_paths(start, end, limit=300):
        if any(x not in allowed for x in path):
            continue
        ok = True
        for i, bb in enumerate(path[:-1]):
            t = b.blocks[bb]["term"]
            if t["k"] == "switch":
                so = b.switch_origin(bb)
                if so[0] == "discr" and mir.o_is_call(so[1], name="branch"):
                    vals = [str(v) for v, n in t["targets"] if n == path[i + 1]]
                    if "0" not in vals:
                        ok = False
                        break
        if ok:
            out.append(path)
    return out


ELEMENT_FRAMES = ("seq_value", "record_tuple_value", "record_value", "map_key", "map_value", "tagged", "tuple_value")


def _empty_frame(toks):
    for i in range(len(toks) - 1):
        n0, n1 = toks[i][0], toks[i + 1][0]
        if n0.endswith("_begin") and n1.endswith("_end") and n0[:-6] == n1[:-4] and n0[:-6] in ELEMENT_FRAMES:
            return "`%s` at %s is closed at once: the element / field it announces has no value" % (n0, toks[i][2].loc)
    return None


def values_balanced(chk, P, key="C13.R7:values-balanced"):
    """Every function of the OTLP data code and of the file writer that writes sval frames - `Value::stream` impls, derived or by hand, and the
    helpers they share (`stream_field`, `stream_attributes`, `stream_encoded_scope_items`, the attribute stream, the file record) - opens and
    closes its frames well-nested under matching (label, index), along every success path and along every iteration of every loop, and writes
    a value inside each element / field frame it opens."""
    def f():
        vals = _label_values()
        n = 0
        for k, b in sorted(P.bodies.items()):
            if b.crate not in ("emit_otlp", "emit_file") or "generated" in b.file or "::tests::" in k:
                continue
            if not any("sval::stream::Stream" in (c.callee.get("trait") or "") and (c.callee.get("name") or "").endswith(("_begin", "_end")) for c in b.calls(normal_only=True)):
                continue
            if re.search(r"AnyStream<S> as sval::stream::Stream|AnyStream::<S>::any_value_(begin|end)$|Extract<", k):
                continue   # bridges: a frame is opened in one method and closed in another (checked as method groups above)
            n += 1
            for p in success_paths(b, False)[:200]:
                t = _stream_tokens(b, p)
                d = balanced(t, vals) or _empty_frame(t)
                if d:
                    return False, "%s: %s - the record / payload it writes would not parse or decode" % (k, d), [], b.span
            for s_, h in b.back_edges():
                body = b.loop_body(h)
                for p in _success_subpaths(b, h, s_, body)[:100]:
                    t = _stream_tokens(b, p)
                    d = balanced(t, vals) or _empty_frame(t)
                    if d:
                        return False, "%s, in one iteration of its loop: %s" % (k, d), [], b.span
        if n < 45:
            raise mir.AnchorMissing("frame-writing functions in the OTLP data code and the file writer (found %d)" % n)
        return True, "", ["%d frame-writing bodies: success paths and loop iterations well-nested, no empty element frames" % n]
    chk.ob(key, "every frame-writing function of the OTLP data code and the file writer is well-nested, per path and per loop iteration, with a value in every element frame", f)
