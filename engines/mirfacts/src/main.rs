// mirfacts: a rustc_private driver that dumps type-resolved facts (built MIR, ADTs, impls,
// statics, evaluated constants) of selected workspace crates as JSON, one file per
// (crate, metadata hash).  Injected with RUSTC_WORKSPACE_WRAPPER under `cargo +nightly check`.
// It never runs any code of the analysed crates; constants are evaluated by the compiler.
#![feature(rustc_private)]
#![allow(rustc::internal)]

extern crate rustc_abi;
extern crate rustc_driver;
extern crate rustc_hir;
extern crate rustc_interface;
extern crate rustc_middle;
extern crate rustc_span;

use std::fmt::Write as _;

use rustc_driver::{Callbacks, Compilation};
use rustc_hir::def::DefKind;
use rustc_hir::def_id::{DefId, LocalDefId};
use rustc_interface::interface::Compiler;
use rustc_middle::mir::{
    self, AggregateKind, AssertKind, BasicBlock, Body, Const, ConstValue, Operand, Place,
    ProjectionElem, Rvalue, StatementKind, TerminatorKind, UnwindAction,
};
use rustc_middle::ty::print::{
    with_no_trimmed_paths, with_no_visible_paths, with_resolve_crate_name,
};
use rustc_middle::ty::{self, Instance, Ty, TyCtxt, TypingEnv};
use rustc_span::Span;

// ---------------------------------------------------------------------------------------------
// tiny JSON builder
// ---------------------------------------------------------------------------------------------

fn esc(s: &str) -> String {
    let mut o = String::with_capacity(s.len() + 2);
    o.push('"');
    for c in s.chars() {
        match c {
            '"' => o.push_str("\\\""),
            '\\' => o.push_str("\\\\"),
            '\n' => o.push_str("\\n"),
            '\r' => o.push_str("\\r"),
            '\t' => o.push_str("\\t"),
            c if (c as u32) < 0x20 => {
                let _ = write!(o, "\\u{:04x}", c as u32);
            }
            c => o.push(c),
        }
    }
    o.push('"');
    o
}

struct Obj(String);
impl Obj {
    fn new() -> Obj {
        Obj(String::from("{"))
    }
    fn raw(mut self, k: &str, v: &str) -> Obj {
        if self.0.len() > 1 {
            self.0.push(',');
        }
        self.0.push_str(&esc(k));
        self.0.push(':');
        self.0.push_str(v);
        self
    }
    fn s(self, k: &str, v: &str) -> Obj {
        let e = esc(v);
        self.raw(k, &e)
    }
    fn os(self, k: &str, v: Option<&str>) -> Obj {
        match v {
            Some(v) => self.s(k, v),
            None => self,
        }
    }
    fn n(self, k: &str, v: i128) -> Obj {
        self.raw(k, &v.to_string())
    }
    fn b(self, k: &str, v: bool) -> Obj {
        self.raw(k, if v { "true" } else { "false" })
    }
    fn end(mut self) -> String {
        self.0.push('}');
        self.0
    }
}

fn arr(items: impl IntoIterator<Item = String>) -> String {
    let mut o = String::from("[");
    let mut first = true;
    for i in items {
        if !first {
            o.push(',');
        }
        first = false;
        o.push_str(&i);
    }
    o.push(']');
    o
}

// ---------------------------------------------------------------------------------------------

struct Cx<'tcx> {
    tcx: TyCtxt<'tcx>,
}

fn canon<R>(f: impl FnOnce() -> R) -> R {
    with_resolve_crate_name!(with_no_visible_paths!(with_no_trimmed_paths!(f())))
}

impl<'tcx> Cx<'tcx> {
    fn path(&self, def: DefId) -> String {
        canon(|| self.tcx.def_path_str(def))
    }
    fn path_args(&self, def: DefId, args: ty::GenericArgsRef<'tcx>) -> String {
        canon(|| self.tcx.def_path_str_with_args(def, args))
    }
    fn ty(&self, ty: Ty<'tcx>) -> String {
        canon(|| ty.to_string())
    }
    fn loc(&self, span: Span) -> String {
        let sm = self.tcx.sess.source_map();
        let sp = span.source_callsite();
        let lo = sm.lookup_char_pos(sp.lo());
        let name = match &lo.file.name {
            rustc_span::FileName::Real(r) => match r.local_path() {
                Some(p) => p.display().to_string(),
                None => format!("{:?}", lo.file.name),
            },
            other => format!("{:?}", other),
        };
        format!("{}:{}", name, lo.line)
    }
    fn line(&self, span: Span) -> i128 {
        let sm = self.tcx.sess.source_map();
        sm.lookup_char_pos(span.source_callsite().lo()).line as i128
    }

    // ---- constants ---------------------------------------------------------------------------

    fn bytes_of_alloc(&self, alloc_id: mir::interpret::AllocId, start: u64, len: u64) -> Option<Vec<u8>> {
        let ga = self.tcx.try_get_global_alloc(alloc_id)?;
        let mem = match ga {
            mir::interpret::GlobalAlloc::Memory(m) => m,
            _ => return None,
        };
        let a = mem.inner();
        let end = start.checked_add(len)?;
        if end > a.size().bytes() {
            return None;
        }
        let r = (start as usize)..(end as usize);
        Some(a.inspect_with_uninit_and_ptr_outside_interpreter(r).to_vec())
    }

    fn const_value_json(&self, val: ConstValue, ty: Ty<'tcx>) -> Option<String> {
        let tcx = self.tcx;
        match val {
            ConstValue::Scalar(s) => {
                if let Ok(si) = s.try_to_scalar_int() {
                    return Some(self.scalar_json(si, ty));
                }
                // a pointer to a static item
                if let mir::interpret::Scalar::Ptr(p, _) = s {
                    let (prov, _off) = p.prov_and_relative_offset();
                    if let Some(mir::interpret::GlobalAlloc::Static(def)) = tcx.try_get_global_alloc(prov.alloc_id()) {
                        return Some(Obj::new().s("static", &self.path(def)).end());
                    }
                }
                // pointer scalars: &[u8; N] or &T to a static allocation
                if let ty::Ref(_, inner, _) = ty.kind() {
                    if let ty::Array(elem, len) = inner.kind() {
                        if *elem == tcx.types.u8 {
                            let n = len.try_to_target_usize(tcx)?;
                            if let mir::interpret::Scalar::Ptr(p, _) = s {
                                let (prov, off) = p.prov_and_relative_offset();
                                let b = self.bytes_of_alloc(prov.alloc_id(), off.bytes(), n)?;
                                return Some(
                                    Obj::new().raw("bytes", &arr(b.iter().map(|x| x.to_string()))).end(),
                                );
                            }
                        }
                    }
                }
                None
            }
            ConstValue::ZeroSized => None,
            ConstValue::Slice { .. } => {
                let inner = match ty.kind() {
                    ty::Ref(_, inner, _) => *inner,
                    _ => return None,
                };
                let b = val.try_get_slice_bytes_for_diagnostics(tcx)?;
                if inner.is_str() {
                    Some(Obj::new().s("str", &String::from_utf8_lossy(b)).end())
                } else if matches!(inner.kind(), ty::Slice(e) if *e == tcx.types.u8) {
                    Some(Obj::new().raw("bytes", &arr(b.iter().map(|x| x.to_string()))).end())
                } else {
                    None
                }
            }
            ConstValue::Indirect { alloc_id, offset } => {
                match ty.kind() {
                    ty::Array(elem, len) if *elem == tcx.types.u8 => {
                        let n = len.try_to_target_usize(tcx)?;
                        let b = self.bytes_of_alloc(alloc_id, offset.bytes(), n)?;
                        Some(Obj::new().raw("bytes", &arr(b.iter().map(|x| x.to_string()))).end())
                    }
                    ty::Ref(_, inner, _) if inner.is_str() => {
                        let b = val.try_get_slice_bytes_for_diagnostics(tcx)?;
                        Some(Obj::new().s("str", &String::from_utf8_lossy(b)).end())
                    }
                    _ => None,
                }
            }
        }
    }

    fn scalar_json(&self, si: ty::ScalarInt, ty: Ty<'tcx>) -> String {
        let size = si.size();
        let bits = si.to_bits(size);
        match ty.kind() {
            ty::Bool => Obj::new().b("bool", bits != 0).end(),
            ty::Char => {
                let c = char::from_u32(bits as u32).unwrap_or('\u{fffd}');
                Obj::new().s("char", &c.to_string()).n("int", bits as i128).end()
            }
            ty::Int(_) => {
                let v = size.sign_extend(bits) as i128;
                Obj::new().s("int", &v.to_string()).end()
            }
            _ => Obj::new().s("int", &bits.to_string()).end(),
        }
    }

    fn const_json(&self, c: &Const<'tcx>, env: TypingEnv<'tcx>, span: Span, eval: bool) -> String {
        let tcx = self.tcx;
        let ty = c.ty();
        let mut o = Obj::new().s("ty", &self.ty(ty));
        // function items / closures as constants
        match ty.kind() {
            ty::FnDef(def, args) => {
                o = o.s("fn", &self.path(*def));
                o = o.s("fn_args", &self.path_args(*def, args));
                return o.end();
            }
            _ => {}
        }
        if let Const::Unevaluated(u, _) = c {
            o = o.s("def", &self.path(u.def));
            if u.promoted.is_some() {
                o = o.b("promoted", true);
            }
        }
        if eval {
            let v = match c {
                Const::Val(v, _) => Some(*v),
                Const::Unevaluated(u, _) => {
                    // never evaluate generic-dependent constants
                    if u.promoted.is_some() {
                        None
                    } else if u.args.iter().any(|a| {
                        use rustc_middle::ty::TypeVisitableExt;
                        a.has_non_region_param()
                    }) {
                        // a const item nested in a generic fn inherits its generics but rarely depends on them:
                        // evaluate it polymorphically (fails cleanly with TooGeneric when it does depend on them)
                        if matches!(tcx.def_kind(u.def), DefKind::Const { .. }) {
                            tcx.const_eval_poly(u.def).ok()
                        } else {
                            None
                        }
                    } else {
                        tcx.const_eval_resolve(env, *u, span).ok()
                    }
                }
                Const::Ty(..) => c.eval(tcx, env, span).ok(),
            };
            if let Some(v) = v {
                if let Some(j) = self.const_value_json(v, ty) {
                    o = o.raw("v", &j);
                }
            }
        }
        o.end()
    }

    // ---- places / operands ----------------------------------------------------------------------

    fn place_json(&self, body: &Body<'tcx>, p: &Place<'tcx>) -> String {
        let tcx = self.tcx;
        let mut projs: Vec<String> = Vec::new();
        let mut pty = mir::PlaceTy::from_ty(body.local_decls[p.local].ty);
        for elem in p.projection.iter() {
            let j = match elem {
                ProjectionElem::Deref => "\"*\"".to_string(),
                ProjectionElem::Field(f, _) => {
                    let mut name: Option<String> = None;
                    match pty.ty.kind() {
                        ty::Adt(adt, _) => {
                            let vi = pty.variant_index.unwrap_or(rustc_abi::FIRST_VARIANT);
                            if vi.as_usize() < adt.variants().len() {
                                let v = adt.variant(vi);
                                if f.as_usize() < v.fields.len() {
                                    name = Some(v.fields[f].name.to_string());
                                }
                            }
                        }
                        ty::Closure(def, _) | ty::Coroutine(def, _) | ty::CoroutineClosure(def, _) => {
                            if let Some(ld) = def.as_local() {
                                let caps = tcx.closure_captures(ld);
                                if f.as_usize() < caps.len() {
                                    name = Some(caps[f.as_usize()].to_symbol().to_string());
                                }
                            }
                        }
                        _ => {}
                    }
                    let o = Obj::new().n("f", f.as_usize() as i128);
                    match name {
                        Some(n) => o.s("n", &n).end(),
                        None => o.end(),
                    }
                }
                ProjectionElem::Index(l) => Obj::new().n("idx", l.as_usize() as i128).end(),
                ProjectionElem::ConstantIndex { offset, min_length, from_end } => Obj::new()
                    .n("cidx", offset as i128)
                    .n("min", min_length as i128)
                    .b("from_end", from_end)
                    .end(),
                ProjectionElem::Subslice { from, to, from_end } => Obj::new()
                    .n("sub_from", from as i128)
                    .n("sub_to", to as i128)
                    .b("from_end", from_end)
                    .end(),
                ProjectionElem::Downcast(name, vi) => {
                    let n = match name {
                        Some(s) => s.to_string(),
                        None => format!("#{}", vi.as_usize()),
                    };
                    Obj::new().s("d", &n).end()
                }
                ProjectionElem::OpaqueCast(_) => "\"opaque\"".to_string(),
                ProjectionElem::UnwrapUnsafeBinder(_) => "\"unbind\"".to_string(),
            };
            projs.push(j);
            pty = pty.projection_ty(tcx, elem);
        }
        if projs.is_empty() {
            Obj::new().n("l", p.local.as_usize() as i128).end()
        } else {
            Obj::new().n("l", p.local.as_usize() as i128).raw("p", &arr(projs)).end()
        }
    }

    fn operand_json(&self, body: &Body<'tcx>, env: TypingEnv<'tcx>, op: &Operand<'tcx>) -> String {
        match op {
            Operand::Copy(p) => Obj::new().raw("c", &self.place_json(body, p)).end(),
            Operand::Move(p) => Obj::new().raw("m", &self.place_json(body, p)).end(),
            Operand::Constant(c) => {
                Obj::new().raw("k", &self.const_json(&c.const_, env, c.span, true)).end()
            }
            _ => Obj::new().s("other", "runtime_checks").end(),
        }
    }

    fn rvalue_json(&self, body: &Body<'tcx>, env: TypingEnv<'tcx>, rv: &Rvalue<'tcx>) -> String {
        let tcx = self.tcx;
        match rv {
            Rvalue::Use(op, ..) => Obj::new().s("k", "use").raw("op", &self.operand_json(body, env, op)).end(),
            Rvalue::Repeat(op, n) => Obj::new()
                .s("k", "repeat")
                .raw("op", &self.operand_json(body, env, op))
                .s("n", &canon(|| n.to_string()))
                .end(),
            Rvalue::Ref(_, bk, p) => {
                let m = match bk {
                    mir::BorrowKind::Shared => "shared",
                    mir::BorrowKind::Fake(_) => "fake",
                    mir::BorrowKind::Mut { .. } => "mut",
                };
                Obj::new().s("k", "ref").s("bk", m).raw("place", &self.place_json(body, p)).end()
            }
            Rvalue::ThreadLocalRef(def) => Obj::new().s("k", "tlref").s("def", &self.path(*def)).end(),
            Rvalue::RawPtr(_, p) => Obj::new().s("k", "rawptr").raw("place", &self.place_json(body, p)).end(),
            Rvalue::Cast(kind, op, ty) => Obj::new()
                .s("k", "cast")
                .s("ck", &format!("{:?}", kind))
                .raw("op", &self.operand_json(body, env, op))
                .s("ty", &self.ty(*ty))
                .s("from_ty", &self.ty(op.ty(&body.local_decls, tcx)))
                .end(),
            Rvalue::BinaryOp(op, ab) => Obj::new()
                .s("k", "binop")
                .s("op", &format!("{:?}", op))
                .raw("a", &self.operand_json(body, env, &ab.0))
                .raw("b", &self.operand_json(body, env, &ab.1))
                .end(),
            Rvalue::UnaryOp(op, a) => Obj::new()
                .s("k", "unop")
                .s("op", &format!("{:?}", op))
                .raw("a", &self.operand_json(body, env, a))
                .end(),
            Rvalue::Discriminant(p) => Obj::new().s("k", "discr").raw("place", &self.place_json(body, p)).end(),
            Rvalue::Aggregate(kind, ops) => {
                let mut o = Obj::new().s("k", "agg");
                match &**kind {
                    AggregateKind::Array(t) => {
                        o = o.s("ak", "array").s("elem_ty", &self.ty(*t));
                    }
                    AggregateKind::Tuple => {
                        o = o.s("ak", "tuple");
                    }
                    AggregateKind::Adt(def, vi, args, _, active) => {
                        let adt = tcx.adt_def(*def);
                        let v = adt.variant(*vi);
                        o = o
                            .s("ak", "adt")
                            .s("adt", &self.path(*def))
                            .s("adt_args", &self.path_args(*def, args))
                            .s("variant", &v.name.to_string());
                        let names: Vec<String> = match active {
                            Some(f) => vec![esc(&v.fields[*f].name.to_string())],
                            None => v.fields.iter().map(|f| esc(&f.name.to_string())).collect(),
                        };
                        o = o.raw("fields", &arr(names));
                    }
                    AggregateKind::Closure(def, _) => {
                        o = o.s("ak", "closure").s("def", &self.path(*def));
                        o = self.capture_names(o, *def);
                    }
                    AggregateKind::Coroutine(def, _) => {
                        o = o.s("ak", "coroutine").s("def", &self.path(*def));
                        o = self.capture_names(o, *def);
                    }
                    AggregateKind::CoroutineClosure(def, _) => {
                        o = o.s("ak", "coroutine_closure").s("def", &self.path(*def));
                        o = self.capture_names(o, *def);
                    }
                    AggregateKind::RawPtr(..) => {
                        o = o.s("ak", "rawptr");
                    }
                }
                o.raw("ops", &arr(ops.iter().map(|x| self.operand_json(body, env, x)))).end()
            }
            Rvalue::CopyForDeref(p) => Obj::new()
                .s("k", "use")
                .raw("op", &Obj::new().raw("c", &self.place_json(body, p)).end())
                .end(),
            Rvalue::WrapUnsafeBinder(op, _) => {
                Obj::new().s("k", "use").raw("op", &self.operand_json(body, env, op)).end()
            }
        }
    }

    fn capture_names(&self, o: Obj, def: DefId) -> Obj {
        if let Some(ld) = def.as_local() {
            let caps = self.tcx.closure_captures(ld);
            let names: Vec<String> = caps.iter().map(|c| esc(&c.to_symbol().to_string())).collect();
            let by_ref: Vec<String> = caps
                .iter()
                .map(|c| {
                    (if matches!(c.info.capture_kind, ty::UpvarCapture::ByRef(_)) { "true" } else { "false" })
                        .to_string()
                })
                .collect();
            o.raw("fields", &arr(names)).raw("by_ref", &arr(by_ref))
        } else {
            o
        }
    }

    fn unwind_json(&self, u: &UnwindAction) -> String {
        match u {
            UnwindAction::Continue => "\"continue\"".into(),
            UnwindAction::Unreachable => "\"unreachable\"".into(),
            UnwindAction::Terminate(_) => "\"terminate\"".into(),
            UnwindAction::Cleanup(bb) => bb.as_usize().to_string(),
        }
    }

    fn callee_json(
        &self,
        body: &Body<'tcx>,
        env: TypingEnv<'tcx>,
        func: &Operand<'tcx>,
    ) -> String {
        let tcx = self.tcx;
        let fty = func.ty(&body.local_decls, tcx);
        match fty.kind() {
            ty::FnDef(def, args) => {
                let mut o = Obj::new().s("path", &self.path(*def)).s("full", &self.path_args(*def, args));
                o = o.raw("generics", &arr(args.iter().map(|a| esc(&canon(|| a.to_string())))));
                o = o.s("name", &tcx.item_name(*def).to_string());
                if let Some(assoc) = tcx.opt_associated_item(*def) {
                    let container = assoc.container_id(tcx);
                    match tcx.def_kind(container) {
                        DefKind::Trait => {
                            o = o.s("trait", &self.path(container));
                            if args.len() > 0 {
                                if let Some(t) = args[0].as_type() {
                                    o = o.s("self_ty", &self.ty(t));
                                }
                            }
                        }
                        DefKind::Impl { of_trait } => {
                            let self_ty = tcx.type_of(container).instantiate(tcx, args).skip_norm_wip();
                            o = o.s("self_ty", &self.ty(self_ty));
                            let ident_ty = tcx.type_of(container).instantiate_identity().skip_norm_wip();
                            o = o.s("impl_self_ty", &self.ty(ident_ty));
                            if of_trait {
                                let tr = tcx.impl_trait_ref(container).instantiate_identity().skip_norm_wip();
                                o = o.s("impl_trait", &self.path(tr.def_id));
                            }
                        }
                        _ => {}
                    }
                }
                // try to resolve trait calls to a concrete impl item
                use rustc_middle::ty::TypeVisitableExt;
                if !args.has_escaping_bound_vars() {
                    if let Ok(Some(inst)) = Instance::try_resolve(tcx, env, *def, args) {
                        let rdef = inst.def_id();
                        if rdef != *def {
                            o = o.s("resolved", &self.key_of(rdef));
                        }
                    }
                }
                if def.is_local() {
                    o = o.s("key", &self.key_of(*def));
                }
                o.end()
            }
            ty::FnPtr(..) => Obj::new().s("indirect", "fnptr").raw("op", &self.operand_json(body, env, func)).end(),
            _ => Obj::new().s("indirect", &self.ty(fty)).raw("op", &self.operand_json(body, env, func)).end(),
        }
    }

    fn assert_json(&self, body: &Body<'tcx>, env: TypingEnv<'tcx>, msg: &AssertKind<Operand<'tcx>>) -> String {
        match msg {
            AssertKind::BoundsCheck { len, index } => Obj::new()
                .s("k", "bounds")
                .raw("len", &self.operand_json(body, env, len))
                .raw("index", &self.operand_json(body, env, index))
                .end(),
            AssertKind::Overflow(op, a, b) => Obj::new()
                .s("k", "overflow")
                .s("op", &format!("{:?}", op))
                .raw("a", &self.operand_json(body, env, a))
                .raw("b", &self.operand_json(body, env, b))
                .end(),
            AssertKind::OverflowNeg(a) => {
                Obj::new().s("k", "overflow_neg").raw("a", &self.operand_json(body, env, a)).end()
            }
            AssertKind::DivisionByZero(a) => {
                Obj::new().s("k", "div_zero").raw("a", &self.operand_json(body, env, a)).end()
            }
            AssertKind::RemainderByZero(a) => {
                Obj::new().s("k", "rem_zero").raw("a", &self.operand_json(body, env, a)).end()
            }
            AssertKind::ResumedAfterReturn(_)
            | AssertKind::ResumedAfterPanic(_)
            | AssertKind::ResumedAfterDrop(_) => Obj::new().s("k", "resumed").end(),
            _ => Obj::new().s("k", "other").end(),
        }
    }

    // a stable key for a body owner: the canonical def path (impl items print as
    // `<SelfTy as Trait>::method` / `SelfTy::method`, never as impl ordinals)
    fn key_of(&self, def: DefId) -> String {
        self.path(def)
    }

    fn body_json(&self, def: LocalDefId, body: &Body<'tcx>) -> String {
        let tcx = self.tcx;
        let did = def.to_def_id();
        let env = TypingEnv::post_analysis(tcx, did);
        let kind = tcx.def_kind(did);
        let mut o = Obj::new()
            .s("key", &self.key_of(did))
            .s("kind", &format!("{:?}", kind))
            .s("span", &self.loc(body.span))
            .n("argc", body.arg_count as i128);
        if body.coroutine.is_some() {
            o = o.b("coroutine", true);
        }
        if let Some(name) = tcx.opt_item_name(did) {
            o = o.s("name", &name.to_string());
        }
        // parent (for closures / inline consts)
        let mut root = did;
        if tcx.is_typeck_child(did) {
            root = tcx.typeck_root_def_id(did);
            o = o.s("parent", &self.key_of(tcx.parent(did)));
            o = o.s("root", &self.key_of(root));
        }
        if matches!(kind, DefKind::Fn | DefKind::AssocFn) {
            o = o.s("vis", &format!("{:?}", tcx.visibility(did)));
            let sig = tcx.fn_sig(did).instantiate_identity().skip_norm_wip();
            o = o.s("sig", &canon(|| sig.to_string()));
        }
        // impl context of the root item
        if let Some(assoc) = tcx.opt_associated_item(root) {
            let container = assoc.container_id(tcx);
            match tcx.def_kind(container) {
                DefKind::Impl { of_trait } => {
                    let self_ty = tcx.type_of(container).instantiate_identity().skip_norm_wip();
                    o = o.s("self_ty", &self.ty(self_ty));
                    if of_trait {
                        let tr = tcx.impl_trait_ref(container).instantiate_identity().skip_norm_wip();
                        o = o.s("trait", &self.path(tr.def_id));
                        o = o.s("trait_ref", &canon(|| tr.to_string()));
                    }
                    o = o.s("method", &assoc.name().to_string());
                }
                DefKind::Trait => {
                    o = o.s("trait_default", &self.path(container));
                    o = o.s("method", &assoc.name().to_string());
                }
                _ => {}
            }
        }
        // locals
        let mut dbg_names: Vec<Option<String>> = vec![None; body.local_decls.len()];
        let mut dbg: Vec<String> = Vec::new();
        for vdi in &body.var_debug_info {
            match &vdi.value {
                mir::VarDebugInfoContents::Place(p) => {
                    if p.projection.is_empty() {
                        dbg_names[p.local.as_usize()] = Some(vdi.name.to_string());
                    } else {
                        dbg.push(
                            Obj::new().s("name", &vdi.name.to_string()).raw("place", &self.place_json(body, p)).end(),
                        );
                    }
                }
                mir::VarDebugInfoContents::Const(_) => {}
            }
        }
        let locals = arr(body.local_decls.iter_enumerated().map(|(l, d)| {
            let mut lo = Obj::new().s("ty", &self.ty(d.ty));
            if let Some(n) = &dbg_names[l.as_usize()] {
                lo = lo.s("name", n);
            }
            if d.is_user_variable() {
                lo = lo.b("user", true);
            }
            lo.end()
        }));
        o = o.raw("locals", &locals).raw("dbg", &arr(dbg));

        // blocks
        let blocks = arr(body.basic_blocks.iter_enumerated().map(|(_bb, data)| {
            let stmts = arr(data.statements.iter().filter_map(|st| {
                let expn = st.source_info.span.from_expansion();
                match &st.kind {
                    StatementKind::Assign(b) => {
                        let (p, rv) = &**b;
                        Some(
                            Obj::new()
                                .s("k", "assign")
                                .raw("place", &self.place_json(body, p))
                                .raw("rv", &self.rvalue_json(body, env, rv))
                                .n("line", self.line(st.source_info.span))
                                .b("expn", expn)
                                .end(),
                        )
                    }
                    StatementKind::SetDiscriminant { place, variant_index } => Some(
                        Obj::new()
                            .s("k", "setdiscr")
                            .raw("place", &self.place_json(body, place))
                            .n("variant", variant_index.as_usize() as i128)
                            .end(),
                    ),
                    StatementKind::StorageLive(l) => {
                        Some(Obj::new().s("k", "live").n("l", l.as_usize() as i128).end())
                    }
                    StatementKind::StorageDead(l) => {
                        Some(Obj::new().s("k", "dead").n("l", l.as_usize() as i128).end())
                    }
                    _ => None,
                }
            }));
            let t = data.terminator();
            let expn = t.source_info.span.from_expansion();
            let line = self.line(t.source_info.span);
            let term = match &t.kind {
                TerminatorKind::Goto { target } => Obj::new().s("k", "goto").n("t", bbn(*target)).end(),
                TerminatorKind::SwitchInt { discr, targets } => {
                    let ts = arr(targets.iter().map(|(v, bb)| format!("[\"{}\",{}]", v, bb.as_usize())));
                    Obj::new()
                        .s("k", "switch")
                        .raw("discr", &self.operand_json(body, env, discr))
                        .s("discr_ty", &self.ty(discr.ty(&body.local_decls, tcx)))
                        .raw("targets", &ts)
                        .n("otherwise", bbn(targets.otherwise()))
                        .n("line", line)
                        .end()
                }
                TerminatorKind::UnwindResume => Obj::new().s("k", "resume").end(),
                TerminatorKind::UnwindTerminate(_) => Obj::new().s("k", "terminate").end(),
                TerminatorKind::Return => Obj::new().s("k", "return").end(),
                TerminatorKind::Unreachable => Obj::new().s("k", "unreachable").end(),
                TerminatorKind::Drop { place, target, unwind, .. } => Obj::new()
                    .s("k", "drop")
                    .raw("place", &self.place_json(body, place))
                    .n("t", bbn(*target))
                    .raw("unwind", &self.unwind_json(unwind))
                    .n("line", line)
                    .end(),
                TerminatorKind::Call { func, args, destination, target, unwind, fn_span, .. } => {
                    let mut o = Obj::new()
                        .s("k", "call")
                        .raw("callee", &self.callee_json(body, env, func))
                        .raw("args", &arr(args.iter().map(|a| self.operand_json(body, env, &a.node))))
                        .raw("dest", &self.place_json(body, destination))
                        .raw("unwind", &self.unwind_json(unwind))
                        .n("line", self.line(*fn_span))
                        .b("expn", expn || fn_span.from_expansion());
                    if expn || fn_span.from_expansion() {
                        // outermost macro this call was expanded from (e.g. `info_span`, `emit`, `format_args`)
                        let mut sp = t.source_info.span;
                        let mut names: Vec<String> = Vec::new();
                        let mut guard = 0;
                        while sp.from_expansion() && guard < 16 {
                            let ed = sp.ctxt().outer_expn_data();
                            if let rustc_span::ExpnKind::Macro(_, name) = ed.kind {
                                names.push(name.to_string());
                            }
                            sp = ed.call_site;
                            guard += 1;
                        }
                        if !names.is_empty() {
                            o = o.raw("macros", &arr(names.iter().map(|n| esc(n))));
                        }
                    }
                    if let Some(t) = target {
                        o = o.n("t", bbn(*t));
                    }
                    o.end()
                }
                TerminatorKind::TailCall { func, args, .. } => Obj::new()
                    .s("k", "tailcall")
                    .raw("callee", &self.callee_json(body, env, func))
                    .raw("args", &arr(args.iter().map(|a| self.operand_json(body, env, &a.node))))
                    .end(),
                TerminatorKind::Assert { cond, expected, msg, target, unwind } => Obj::new()
                    .s("k", "assert")
                    .raw("cond", &self.operand_json(body, env, cond))
                    .b("expected", *expected)
                    .raw("msg", &self.assert_json(body, env, msg))
                    .n("t", bbn(*target))
                    .raw("unwind", &self.unwind_json(unwind))
                    .n("line", line)
                    .b("expn", expn)
                    .end(),
                TerminatorKind::Yield { value, resume, resume_arg, drop } => {
                    let mut o = Obj::new()
                        .s("k", "yield")
                        .raw("value", &self.operand_json(body, env, value))
                        .n("t", bbn(*resume))
                        .raw("resume_arg", &self.place_json(body, resume_arg))
                        .n("line", line);
                    if let Some(d) = drop {
                        o = o.n("drop", bbn(*d));
                    }
                    o.end()
                }
                TerminatorKind::CoroutineDrop => Obj::new().s("k", "coroutine_drop").end(),
                TerminatorKind::FalseEdge { real_target, imaginary_target } => Obj::new()
                    .s("k", "falseedge")
                    .n("t", bbn(*real_target))
                    .n("imaginary", bbn(*imaginary_target))
                    .end(),
                TerminatorKind::FalseUnwind { real_target, unwind } => Obj::new()
                    .s("k", "falseunwind")
                    .n("t", bbn(*real_target))
                    .raw("unwind", &self.unwind_json(unwind))
                    .end(),
                TerminatorKind::InlineAsm { .. } => Obj::new().s("k", "asm").end(),
            };
            Obj::new().b("cleanup", data.is_cleanup).raw("stmts", &stmts).raw("term", &term).end()
        }));
        o.raw("blocks", &blocks).end()
    }

    // ---- items ------------------------------------------------------------------------------------

    fn adt_json(&self, def: DefId) -> String {
        let tcx = self.tcx;
        let adt = tcx.adt_def(def);
        let variants = arr(adt.variants().iter_enumerated().map(|(vi, v)| {
            let fields = arr(v.fields.iter().map(|f| {
                let fty = tcx.type_of(f.did).instantiate_identity().skip_norm_wip();
                Obj::new()
                    .s("name", &f.name.to_string())
                    .s("ty", &self.ty(fty))
                    .s("vis", &format!("{:?}", f.vis))
                    .end()
            }));
            let mut o = Obj::new().s("name", &v.name.to_string()).raw("fields", &fields);
            if adt.is_enum() {
                let d = adt.discriminant_for_variant(tcx, vi);
                o = o.s("discr", &d.val.to_string());
            }
            o.end()
        }));
        Obj::new()
            .s("path", &self.path(def))
            .s("kind", if adt.is_enum() { "enum" } else if adt.is_union() { "union" } else { "struct" })
            .s("span", &self.loc(tcx.def_span(def)))
            .raw("variants", &variants)
            .end()
    }

    fn impl_json(&self, def: DefId, of_trait: bool) -> String {
        let tcx = self.tcx;
        let self_ty = tcx.type_of(def).instantiate_identity().skip_norm_wip();
        let mut o = Obj::new().s("self_ty", &self.ty(self_ty)).s("span", &self.loc(tcx.def_span(def)));
        if of_trait {
            let tr = tcx.impl_trait_ref(def).instantiate_identity().skip_norm_wip();
            o = o.s("trait", &self.path(tr.def_id)).s("trait_ref", &canon(|| tr.to_string()));
            o = o.b("negative", tcx.impl_polarity(def) == ty::ImplPolarity::Negative);
            let h = tcx.impl_trait_header(def);
            o = o.b("unsafe", h.safety.is_unsafe());
        }
        let preds = tcx.predicates_of(def).instantiate_identity(tcx);
        o = o.raw(
            "predicates",
            &arr(preds.predicates.iter().map(|p| esc(&canon(|| p.skip_norm_wip().to_string())))),
        );
        let items = arr(tcx.associated_items(def).in_definition_order().map(|it| {
            Obj::new()
                .s("name", &it.name().to_string())
                .s("kind", &format!("{:?}", it.tag()))
                .s("key", &self.key_of(it.def_id))
                .end()
        }));
        o.raw("items", &items).end()
    }
}

fn bbn(b: BasicBlock) -> i128 {
    b.as_usize() as i128
}

struct Cb {
    out: String,
    tag: String,
    features: Vec<String>,
    is_test: bool,
}

impl Callbacks for Cb {
    fn after_expansion<'tcx>(&mut self, _c: &Compiler, tcx: TyCtxt<'tcx>) -> Compilation {
        let cx = Cx { tcx };
        let crate_name = tcx.crate_name(rustc_hir::def_id::LOCAL_CRATE).to_string();

        // pass 1: clone every built body before anything (const eval) can steal it
        let owners: Vec<LocalDefId> = tcx.hir_body_owners().collect();
        let mut bodies: Vec<(LocalDefId, Body<'tcx>)> = Vec::new();
        for def in owners {
            let kind = tcx.def_kind(def);
            match kind {
                DefKind::Fn
                | DefKind::AssocFn
                | DefKind::Closure
                | DefKind::Const { .. }
                | DefKind::AssocConst { .. }
                | DefKind::Static { .. }
                | DefKind::InlineConst
                | DefKind::SyntheticCoroutineBody => {}
                _ => continue,
            }
            if tcx.is_constructor(def.to_def_id()) {
                continue;
            }
            let b = tcx.mir_built(def).borrow().clone();
            bodies.push((def, b));
        }

        // pass 2: serialise
        let mut out = String::new();
        out.push_str("{\"crate\":");
        out.push_str(&esc(&crate_name));
        out.push_str(",\"tag\":");
        out.push_str(&esc(&self.tag));
        out.push_str(",\"is_test\":");
        out.push_str(if self.is_test { "true" } else { "false" });
        out.push_str(",\"features\":");
        out.push_str(&arr(self.features.iter().map(|f| esc(f))));

        let mut adts = Vec::new();
        let mut impls = Vec::new();
        let mut statics = Vec::new();
        let mut consts = Vec::new();
        let mut fns = Vec::new();
        for ld in tcx.hir_crate_items(()).definitions() {
            let def = ld.to_def_id();
            match tcx.def_kind(def) {
                DefKind::Struct | DefKind::Enum | DefKind::Union => adts.push(cx.adt_json(def)),
                DefKind::Impl { of_trait } => impls.push(cx.impl_json(def, of_trait)),
                DefKind::Static { .. } => {
                    let ty = tcx.type_of(def).instantiate_identity().skip_norm_wip();
                    statics.push(
                        Obj::new()
                            .s("path", &cx.path(def))
                            .s("ty", &cx.ty(ty))
                            .b("thread_local", tcx.is_thread_local_static(def))
                            .b("mutable", tcx.is_mutable_static(def))
                            .s("span", &cx.loc(tcx.def_span(def)))
                            .end(),
                    );
                }
                DefKind::Const { .. } | DefKind::AssocConst { .. } => {
                    let generics = tcx.generics_of(def);
                    let ty = tcx.type_of(def).instantiate_identity().skip_norm_wip();
                    let mut o = Obj::new().s("path", &cx.path(def)).s("ty", &cx.ty(ty));
                    if generics.count() == 0 && tcx.hir_maybe_body_owned_by(ld).is_some() {
                        if let Ok(v) = tcx.const_eval_poly(def) {
                            if let Some(j) = cx.const_value_json(v, ty) {
                                o = o.raw("v", &j);
                            }
                        }
                    }
                    consts.push(o.end());
                }
                DefKind::Fn | DefKind::AssocFn => {
                    // signatures of all fns, including trait-required ones without bodies
                    let sig = tcx.fn_sig(def).instantiate_identity().skip_norm_wip();
                    fns.push(
                        Obj::new()
                            .s("key", &cx.key_of(def))
                            .s("sig", &canon(|| sig.to_string()))
                            .s("vis", &format!("{:?}", tcx.visibility(def)))
                            .end(),
                    );
                }
                _ => {}
            }
        }
        out.push_str(",\"adts\":");
        out.push_str(&arr(adts));
        out.push_str(",\"impls\":");
        out.push_str(&arr(impls));
        out.push_str(",\"statics\":");
        out.push_str(&arr(statics));
        out.push_str(",\"consts\":");
        out.push_str(&arr(consts));
        out.push_str(",\"fns\":");
        out.push_str(&arr(fns));
        out.push_str(",\"bodies\":[\n");
        let mut first = true;
        for (def, body) in &bodies {
            if !first {
                out.push_str(",\n");
            }
            first = false;
            out.push_str(&cx.body_json(*def, body));
        }
        out.push_str("\n]}\n");

        let path = format!("{}/{}-{}.json", self.out, crate_name, self.tag);
        let tmp = format!("{}.tmp{}", path, std::process::id());
        std::fs::write(&tmp, out).expect("mirfacts: cannot write facts");
        std::fs::rename(&tmp, &path).expect("mirfacts: cannot rename facts");
        Compilation::Continue
    }
}

struct NoCb;
impl Callbacks for NoCb {}

fn main() {
    let mut args: Vec<String> = std::env::args().collect();
    // RUSTC_WORKSPACE_WRAPPER mode: argv[1] is the real rustc
    if args.len() > 1 && (args[1].ends_with("rustc") || args[1].contains("/rustc")) {
        args.remove(1);
    }
    let out = std::env::var("MIRFACTS_OUT").unwrap_or_default();
    let allow = std::env::var("MIRFACTS_CRATES").unwrap_or_default();
    let mut crate_name = String::new();
    let mut meta = String::new();
    let mut features = Vec::new();
    let mut is_test = false;
    let mut i = 0;
    while i < args.len() {
        if args[i] == "--crate-name" && i + 1 < args.len() {
            crate_name = args[i + 1].clone();
        }
        if args[i] == "-C" && i + 1 < args.len() && args[i + 1].starts_with("metadata=") {
            meta = args[i + 1]["metadata=".len()..].to_string();
        }
        if let Some(m) = args[i].strip_prefix("-Cmetadata=") {
            meta = m.to_string();
        }
        if args[i] == "--cfg" && i + 1 < args.len() {
            if let Some(f) = args[i + 1].strip_prefix("feature=") {
                features.push(f.trim_matches('"').to_string());
            }
        }
        if args[i] == "--test" {
            is_test = true;
        }
        i += 1;
    }
    let wanted = !out.is_empty()
        && !crate_name.is_empty()
        && allow.split(',').any(|c| c == crate_name)
        && !args.iter().any(|a| a.starts_with("--print"));
    if wanted {
        let tag = format!("{}{}", meta, if is_test { "-test" } else { "" });
        let mut cb = Cb { out, tag, features, is_test };
        rustc_driver::run_compiler(&args, &mut cb);
    } else {
        rustc_driver::run_compiler(&args, &mut NoCb);
    }
}
