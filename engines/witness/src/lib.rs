//! Type-level witnesses for clauses that *are* typing facts.  Every `compile_fail,E0xxx` test has a compiling
//! twin (`no_run`) that differs only in the offending line, so a witness whose path is merely wrong cannot pass.
//! Nothing here is executed: the type checker and the borrow checker are the deciding procedure.

/// C03 — the guard of an entered thread-local frame cannot leave its thread.
///
/// ```compile_fail,E0277
/// fn assert_send<T: Send>(_: &T) {}
/// let ctxt = emit::platform::thread_local_ctxt::ThreadLocalCtxt::new();
/// let mut frame = emit::Frame::push(ctxt, emit::Empty);
/// let guard = frame.enter();
/// assert_send(&guard);
/// ```
///
/// twin: the frame itself (not entered) may move to another thread and carries its properties.
/// ```no_run
/// fn assert_send<T: Send>(_: &T) {}
/// let ctxt = emit::platform::thread_local_ctxt::ThreadLocalCtxt::new();
/// let frame = emit::Frame::push(ctxt, emit::Empty);
/// assert_send(&frame);
/// ```
pub mod c03_enter_guard_not_send {}

/// C03 — a frame cannot be entered twice at once.
///
/// ```compile_fail,E0499
/// let ctxt = emit::platform::thread_local_ctxt::ThreadLocalCtxt::new();
/// let mut frame = emit::Frame::push(ctxt, emit::Empty);
/// let a = frame.enter();
/// let b = frame.enter();
/// drop(a);
/// drop(b);
/// ```
///
/// twin: enter, exit, enter again.
/// ```no_run
/// let ctxt = emit::platform::thread_local_ctxt::ThreadLocalCtxt::new();
/// let mut frame = emit::Frame::push(ctxt, emit::Empty);
/// let a = frame.enter();
/// drop(a);
/// let b = frame.enter();
/// drop(b);
/// ```
pub mod c03_no_double_enter {}

/// C03 — a frame cannot be moved (or dropped) while it is entered.
///
/// ```compile_fail,E0505
/// let ctxt = emit::platform::thread_local_ctxt::ThreadLocalCtxt::new();
/// let mut frame = emit::Frame::push(ctxt, emit::Empty);
/// let guard = frame.enter();
/// drop(frame);
/// drop(guard);
/// ```
///
/// twin: guard first, then the frame.
/// ```no_run
/// let ctxt = emit::platform::thread_local_ctxt::ThreadLocalCtxt::new();
/// let mut frame = emit::Frame::push(ctxt, emit::Empty);
/// let guard = frame.enter();
/// drop(guard);
/// drop(frame);
/// ```
pub mod c03_no_move_while_entered {}

/// C05 — completing a span consumes its guard: it cannot be completed twice.
///
/// ```compile_fail,E0382
/// let rt = emit::runtime::shared();
/// let (mut guard, frame) = emit::span::SpanGuard::new(
///     emit::Empty, rt.ctxt(), rt.clock(), rt.rng(),
///     emit::span::completion::from_fn(|_| {}), emit::Empty, emit::mdl!(), "s", emit::Empty);
/// frame.call(move || {
///     guard.start();
///     guard.complete();
///     guard.complete();
/// });
/// ```
///
/// twin
/// ```no_run
/// let rt = emit::runtime::shared();
/// let (mut guard, frame) = emit::span::SpanGuard::new(
///     emit::Empty, rt.ctxt(), rt.clock(), rt.rng(),
///     emit::span::completion::from_fn(|_| {}), emit::Empty, emit::mdl!(), "s", emit::Empty);
/// frame.call(move || {
///     guard.start();
///     guard.complete();
/// });
/// ```
pub mod c05_complete_consumes {}

/// C05 — `complete_with` consumes the guard too, and builder methods consume the guard they rebuild.
///
/// ```compile_fail,E0382
/// let rt = emit::runtime::shared();
/// let (mut guard, frame) = emit::span::SpanGuard::new(
///     emit::Empty, rt.ctxt(), rt.clock(), rt.rng(),
///     emit::span::completion::from_fn(|_| {}), emit::Empty, emit::mdl!(), "s", emit::Empty);
/// frame.call(move || {
///     guard.start();
///     guard.complete_with(emit::span::completion::from_fn(|_| {}));
///     guard.complete();
/// });
/// ```
///
/// ```compile_fail,E0382
/// let rt = emit::runtime::shared();
/// let (guard, frame) = emit::span::SpanGuard::new(
///     emit::Empty, rt.ctxt(), rt.clock(), rt.rng(),
///     emit::span::completion::from_fn(|_| {}), emit::Empty, emit::mdl!(), "s", emit::Empty);
/// let _ = frame;
/// let renamed = guard.with_name("t");
/// guard.complete();
/// drop(renamed);
/// ```
///
/// twin
/// ```no_run
/// let rt = emit::runtime::shared();
/// let (guard, frame) = emit::span::SpanGuard::new(
///     emit::Empty, rt.ctxt(), rt.clock(), rt.rng(),
///     emit::span::completion::from_fn(|_| {}), emit::Empty, emit::mdl!(), "s", emit::Empty);
/// let _ = frame;
/// let renamed = guard.with_name("t");
/// renamed.complete();
/// ```
pub mod c05_builders_consume {}

/// C06 — there is one receiver: it cannot be cloned, and running it consumes it.
///
/// ```compile_fail,E0599
/// let (_sender, receiver) = emit_batcher::bounded::<Vec<u8>>(8);
/// let _second = receiver.clone();
/// ```
///
/// ```compile_fail,E0382
/// let (_sender, receiver) = emit_batcher::bounded::<Vec<u8>>(8);
/// let a = receiver.exec(|_| async {}, |_| async { Ok(()) });
/// let b = receiver.exec(|_| async {}, |_| async { Ok(()) });
/// drop((a, b));
/// ```
///
/// twin
/// ```no_run
/// let (_sender, receiver) = emit_batcher::bounded::<Vec<u8>>(8);
/// let a = receiver.exec(|_| async {}, |_| async { Ok(()) });
/// drop(a);
/// ```
pub mod c06_single_receiver {}

/// C06 — a batch error hands the remainder back by value (no copy of items is ever made by the channel).
///
/// ```compile_fail,E0382
/// let err = emit_batcher::BatchError::retry(std::io::Error::new(std::io::ErrorKind::Other, "x"), vec![1u8]);
/// let a = err.into_retryable();
/// let b = err.into_retryable();
/// drop((a, b));
/// ```
///
/// twin
/// ```no_run
/// let err = emit_batcher::BatchError::retry(std::io::Error::new(std::io::ErrorKind::Other, "x"), vec![1u8]);
/// let a = err.into_retryable();
/// drop(a);
/// ```
pub mod c06_remainder_moved {}

/// C20 — a runtime slot offers no way to take, replace or mutably reach its contents.
///
/// ```compile_fail,E0599
/// static SLOT: emit::runtime::AmbientSlot = emit::runtime::AmbientSlot::new();
/// let _ = SLOT.take();
/// ```
///
/// ```compile_fail,E0616
/// static SLOT: emit::runtime::AmbientSlot = emit::runtime::AmbientSlot::new();
/// let _ = &SLOT.0;
/// ```
///
/// twin
/// ```no_run
/// static SLOT: emit::runtime::AmbientSlot = emit::runtime::AmbientSlot::new();
/// let _ = SLOT.is_enabled();
/// let _ = SLOT.get();
/// ```
pub mod c20_slot_api {}

/// C04 — the guard of an entered span frame cannot be released on another thread (its exit swaps the *releasing* thread's
/// slot, so the entering thread would keep the span's ids as ambient).
///
/// ```compile_fail,E0277
/// fn assert_send<T: Send>(_: &T) {}
/// let ctxt = emit::platform::thread_local_ctxt::ThreadLocalCtxt::new();
/// let mut frame = emit::Frame::push(&ctxt, emit::span::SpanCtxt::new(None, None, None));
/// let guard = frame.enter();
/// assert_send(&guard);
/// ```
///
/// twin: the un-entered frame is what crosses threads.
/// ```no_run
/// fn assert_send<T: Send>(_: &T) {}
/// let ctxt = emit::platform::thread_local_ctxt::ThreadLocalCtxt::new();
/// let frame = emit::Frame::push(&ctxt, emit::span::SpanCtxt::new(None, None, None));
/// assert_send(&frame);
/// ```
pub mod c04_enter_guard_not_send {}

/// C18 — the guard of an entered traceparent frame cannot be released on another thread (the previous traceparent is
/// restored on the thread that drops the guard).
///
/// ```compile_fail,E0277
/// fn assert_send<T: Send>(_: &T) {}
/// let mut frame = emit_traceparent::Traceparent::current().push();
/// let guard = frame.enter();
/// assert_send(&guard);
/// ```
///
/// twin: the un-entered frame may be sent.
/// ```no_run
/// fn assert_send<T: Send>(_: &T) {}
/// let frame = emit_traceparent::Traceparent::current().push();
/// assert_send(&frame);
/// ```
pub mod c18_enter_guard_not_send {}
