#!/usr/bin/env python3
"""Fill the 'which check catches which seeded change' table of DESIGN.md (between the SEEDED-TABLE markers) from
selftest/RESULTS.md and seeded/*/meta.json.  Documentation only."""
import json
import os
import re

VERIF = os.path.dirname(os.path.dirname(os.path.abspath(__file__)))
res = {}
for line in open(os.path.join(VERIF, "selftest", "RESULTS.md")):
    m = re.match(r"\| seeded:(\S+) \| ([^|]*) \| (\S+) \| ([^|]*)\|", line)
    if m:
        res[m.group(1)] = (m.group(2).strip(), m.group(3), m.group(4).strip())
rows = ["| change | what it does | checks run | outcome | obligations that fired |", "|---|---|---|---|---|"]
for d in sorted(os.listdir(os.path.join(VERIF, "seeded"))):
    mp = os.path.join(VERIF, "seeded", d, "meta.json")
    if not os.path.exists(mp):
        continue
    meta = json.load(open(mp))
    checks, outcome, fired = res.get(d, ("", "not run", ""))
    title = re.sub(r"\s+", " ", meta.get("title", "")).replace("|", "\\|")
    rows.append("| %s | %s | %s | %s | %s |" % (d, title[:170], checks, outcome, fired))
p = os.path.join(VERIF, "DESIGN.md")
s = open(p).read()
a, b = "<!-- SEEDED-TABLE-BEGIN -->", "<!-- SEEDED-TABLE-END -->"
i, j = s.index(a) + len(a), s.index(b)
s = s[:i] + "\n" + "\n".join(rows) + "\n" + s[j:]
open(p, "w").write(s)
print("%d rows" % (len(rows) - 2))
