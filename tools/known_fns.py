#!/usr/bin/env python3
"""Regenerate rules/known_fns.json: the (lifetime-normalised) keys of every non-closure function body of the tree the rules are written
against, over all build configurations.  Functions *not* in this list (new private helpers a change introduces) are inlined into their
callers before the rules run (rules/mir.py, Program._inline_unknown_helpers).  Run after a repository commit of ours adds a function."""
import json
import os
import sys
VERIF = os.path.dirname(os.path.dirname(os.path.abspath(__file__)))
sys.path.insert(0, VERIF)
from rules import facts, mir  # noqa
keys = set()
for cfg in ("K1", "K2a", "K2b", "K3", "K4"):
    try:
        crates, th = facts.load(cfg)
    except Exception as e:
        print("skip", cfg, e)
        continue
    for c in crates:
        for b in c["bodies"]:
            if "parent" in b or b.get("kind") in ("Closure", "InlineConst", "SyntheticCoroutineBody"):
                continue
            keys.add(mir._strip_lifetimes(b["key"]))
json.dump(sorted(keys), open(os.path.join(VERIF, "rules", "known_fns.json"), "w"), indent=0)
print(len(keys), "functions")
# with the list just written nothing may be inlined on this tree
mir._KNOWN[0] = False
for cfg in ("K1", "K2a", "K2b", "K3", "K4"):
    try:
        P = mir.Program(cfg)
    except Exception as e:
        print("skip", cfg, e)
        continue
    print(cfg, "functions inlined on this tree:", len(P.absorbed))
    assert not P.absorbed
