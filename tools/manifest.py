#!/usr/bin/env python3
"""Regenerate /verif/MANIFEST.json from the table below (kept valid at all times)."""
import json
import os

VERIF = os.path.dirname(os.path.dirname(os.path.abspath(__file__)))
props = [json.loads(l) for l in open(os.path.join(VERIF, "properties.jsonl"))]

COMMON_NOTE = ("Trusted: rustc nightly (type checking, trait resolution, macro expansion, MIR construction, const "
               "evaluation); the API-contract table of DESIGN.md section 6 for std/tokio items; generic code is "
               "analysed once pre-monomorphisation (a rule over impl<T: Trait> holds for every T whose own impl meets "
               "the contract). Decides structural necessary conditions, not the behaviour; wasm32 arms not covered.")

# id -> (claimed text, technique, design_ref, extra note)
CLAIMS = {
    "C01": ("Decides on built MIR, for all paths and all generic instantiations: the order and filter guard of the "
            "pipeline in emit_core::emit (own extent before clock, own props before ambient, emit only on the accept "
            "edge, same event to filter and emitter); the local contract of every Emitter/Filter/Wrapping combinator "
            "impl (forwarders incl. the type-erased bridge, Option, Empty, And, Or, Wrap, FromFilter, FirstDefined, "
            "Runtime, macro entry points) as exactly-once / truth-table / short-circuit rules; leaf emitters bypass "
            "filter, clock and ctxt. The conclusion for all combinator trees follows by structural induction (paper "
            "step). Does not decide what user-supplied leaf filters/emitters do.",
            "custom MIR dataflow/path rules (rustc_private fact extractor + provenance, path counting, truth tables)",
            "3/C01"),
    "C02": ("Decides on built MIR for every impl of Props in the workspace (24 for_each bodies, enumerated from the "
            "facts): a Break from the visitor or an inner for_each is returned or ?-propagated and no visitor call can "
            "follow it; every get/pull override is a forwarder, a keyed map lookup, left-then-right (And), None "
            "(Empty) or an order-independent scan (macro props: no binary search over an array sorted by identifier); "
            "the default get keeps the first match and stops; is_unique is true only for stores that cannot hold a "
            "key twice, forwarders forward, And/arrays/slices/Option inherit false; Dedup is first-wins with its fast "
            "path under is_unique(); erased bridge forwards once; views enumerate their own keys before inner props. "
            "Lookup==first-enumerated then follows per impl; not decided: user Props impls, hash-map iteration order.",
            "custom MIR dataflow rules (visitor/ControlFlow discipline, override coherence table, forwarding)",
            "3/C02"),
    "C05": ("Decides the typestate of SpanGuard{state,data,completion} on built MIR: Completion::complete is called "
            "only in complete_default/complete_with, at most once, under the match (Started, Some, Some) of the three "
            "*taken* fields (so a later Drop finds Completed/None/None); Drop and complete() route through it; start() "
            "only moves Initial->Started(Timer::start(clock)) and writes any other state back; every SpanGuard "
            "aggregate construction takes `completion` from the previous guard (monotone enablement; in new(): Some "
            "only on the filter's accept edge) and takes state/data; Timer reads the clock once at start and once at "
            "extent, range(start..now); the default completion's panic arm; level plumbing of the macro completion "
            "hooks; argument agreement (no swapped same-typed arguments) incl. the proc-macro crate. Thorough adds "
            "the macro call-site corpus. Not decided: values of clock readings (backwards clocks).",
            "custom MIR typestate/dataflow rules (guarded-call, field provenance of aggregate constructions, "
            "path-sensitive write-back) + argument-agreement lint",
            "3/C05"),
    "C03": ("Decides on built MIR (scope drops explicit on normal and unwind edges): Frame::enter / EnterGuard::drop "
            "call Ctxt::enter / Ctxt::exit exactly once on the same (ctxt, scope); in Frame::call, Frame::with and "
            "FrameFuture::poll the guard is held across the user call and dropped on the normal and on the unwind "
            "successor (also per poll); Ctxt::enter/exit are called directly only by forwarding Ctxt impls, "
            "Frame::enter and EnterGuard::drop; Frame::drop closes once, into_parts forgets; ThreadLocalCtxt::enter "
            "and ::exit are the same swap(self.id, frame), swap is mem::swap with the thread-local map entry keyed by "
            "the id parameter, current() clones that entry; the first id the counter hands out differs from the "
            "shared id; storage is thread_local!; root frames do not read current state, pushed frames are a "
            "copy-on-write snapshot overlaid with HashMap::insert, disabled = open_push(Empty); frames are Arc "
            "snapshots without interior mutability; 30 forwarding/erased Ctxt methods forward once. Not decided: "
            "that user code exits in stack order; cross-task schedules beyond the per-poll bracket.",
            "custom MIR rules: guard liveness across calls incl. unwind edges, who-may-call, provenance of map keys, "
            "constant evaluation of the id counter",
            "3/C03"),
    "C04": ("Decides on built MIR: SpanCtxt::new_child returns, on every path, SpanCtxt::new(self.trace_id.or_else("
            "random), self.span_id, SpanId::random) (no early return that drops an incoming trace id); new_root; the "
            "constructor and accessors are field-faithful; SpanCtxt::current pulls the constants trace_id / "
            "span_parent / span_id into the like-named parameters and Props for SpanCtxt emits each field under the "
            "same constant (writer/reader agreement); TraceId/SpanId wrap NonZero and are never built unchecked; "
            "SpanGuard::new derives the child of SpanCtxt::current(&ctxt), shows the filter ids + ambient props and "
            "stores the child; push_ctxt pushes ids only on the enabled edge and opens a disabled frame otherwise; "
            "the begin-span hook passes rt.ctxt()/clock()/rng(), completion hooks emit with the runtime's ctxt; the "
            "typed TraceId/SpanId fast path of the thread-local buffer; the RAII frame bracket incl. unwind (ids "
            "revert when a span ends). Not decided: id distinctness (rng), schedules beyond the per-poll bracket.",
            "custom MIR provenance rules (argument origins, constant keys vs field names, guarded calls, guard "
            "liveness incl. unwind)",
            "3/C04"),
}

REASONS_NOT_YET = "check not built yet (build in progress; DESIGN.md section 3 lists the planned rules)"

checks = []
na = []
for p in props:
    pid = p["id"]
    if pid in CLAIMS and os.path.exists(os.path.join(VERIF, "rules", pid.lower() + ".py")):
        text, tech, ref = CLAIMS[pid][:3]
        checks.append({
            "property_id": pid,
            "quick_cmd": "./check %s --tier quick" % pid,
            "thorough_cmd": "./check %s --tier thorough" % pid,
            "evidence_file": "/verif/evidence/%s.json" % pid,
            "replay_cmd_template": "./check %s --explain {path}" % pid,
            "engine": "mirfacts+rules",
            "level_claimed": {"category": "other", "text": text, "design_ref": "DESIGN.md section %s" % ref},
            "level_note": COMMON_NOTE + (" " + CLAIMS[pid][3] if len(CLAIMS[pid]) > 3 else ""),
            "technique": tech,
        })
    else:
        na.append({"property_id": pid, "reason": REASONS_NOT_YET})

m = {
    "version": 1,
    "setup_cmd": "./setup.sh",
    "hooks": {
        "guard": "emit_rs_emit_verif",
        "enable": "none needed: static analysis of the unmodified source; guard name reserved, no hook commits exist",
        "baseline_off_cmd": "cd /repo && cargo test --workspace --no-fail-fast --offline",
        "source_commits": [],
        "add_only": True,
    },
    "engines": [
        {"name": "mirfacts", "path": "engines/mirfacts", "serves_properties": [c["property_id"] for c in checks],
         "kind_free_text": "rustc_private driver (nightly) injected with RUSTC_WORKSPACE_WRAPPER under cargo check: dumps "
                           "built MIR, ADTs, impls, statics and evaluated constants of the workspace crates as JSON"},
        {"name": "rules", "path": "rules", "serves_properties": [c["property_id"] for c in checks],
         "kind_free_text": "Python rule engine over the facts: CFG, dominance, provenance, path counting, truth "
                           "tables, guard liveness, call graph + effects; one module per property"},
    ],
    "checks": checks,
    "notes": "Static analysis only: no registered command runs emit code or its tests. fix: commits in /repo and known "
             "findings are listed in known_findings.json. Self-test of the checker (seeded mutants): selftest/run.py.",
    "not_applicable": na,
}
json.dump(m, open(os.path.join(VERIF, "MANIFEST.json"), "w"), indent=1)
print("claimed:", [c["property_id"] for c in checks])
