#!/usr/bin/env python3
"""Regenerate /verif/MANIFEST.json from the table below (kept valid at all times)."""
import json
import os

VERIF = os.path.dirname(os.path.dirname(os.path.abspath(__file__)))
props = [json.loads(l) for l in open(os.path.join(VERIF, "properties.jsonl"))]

COMMON_NOTE = ("Functions a change adds (not in rules/known_fns.json) are inlined into their callers before the rules run (DESIGN.md 8.1). Trusted: rustc nightly (type checking, trait resolution, macro expansion, MIR construction, const "
               "evaluation); the API-contract table of DESIGN.md section 6 for std/tokio items; generic code is "
               "analysed once pre-monomorphisation (a rule over impl<T: Trait> holds for every T whose own impl meets "
               "the contract). Decides structural necessary conditions, not the behaviour; wasm32 arms not covered.")

# id -> (claimed text, technique, design_ref, extra note)
CLAIMS = {
    "C01": ("Decides on built MIR, for all paths and all generic instantiations: the order and filter guard of the "
            "pipeline in emit_core::emit (own extent before clock, own props before ambient, emit only on the accept "
            "edge, same event to filter and emitter); the local contract of every Emitter/Filter/Wrapping combinator "
            "impl (forwarders incl. the type-erased bridge, Option, Empty, And, Or, Wrap, FromFilter, FirstDefined, "
            "Runtime, macro entry points) as exactly-once / truth-table / short-circuit rules; leaf emitters bypass "
            "filter, clock and ctxt. The conclusion for all combinator trees follows by structural induction (paper "
            "step). Does not decide what user-supplied leaf filters/emitters do. Round 2: the proc-macro side of the emit hooks is read off emit_macros' quote! templates (argument count and like-named variable/parameter agreement at the macro/runtime boundary). Thorough tier repeats the rules on the no_std and alloc-only builds. Round 4: a macro call without `when` passes the empty filter (read off the quote stream). Round 5: runtime::shared()/internal() are exactly <SLOT>.get(), a fresh read of the slot on every call (no memoisation). Round 6: emit!(evt: ..) passes the caller's event on without setting an extent or reading the clock. Round 7: no non-forwarding collection answers Props::pull from its parts' pull; every runtime assembled by Setup carries all five components; And::blocking_flush splits the timeout in Duration units.",
            "custom MIR dataflow/path rules (rustc_private fact extractor + provenance, path counting, truth tables)",
            "3/C01"),
    "C02": ("Decides on built MIR for every impl of Props in the workspace (24 for_each bodies, enumerated from the "
            "facts): a Break from the visitor or an inner for_each is returned or ?-propagated and no visitor call can "
            "follow it; every get/pull override is a forwarder, a keyed map lookup, left-then-right (And), None "
            "(Empty) or an order-independent scan (macro props: no binary search over an array sorted by identifier); "
            "the default get keeps the first match and stops; is_unique is true only for stores that cannot hold a "
            "key twice, forwarders forward, And/arrays/slices/Option inherit false; Dedup is first-wins with its fast "
            "path under is_unique(); erased bridge forwards once; views enumerate their own keys before inner props. "
            "Lookup==first-enumerated then follows per impl; not decided: user Props impls, hash-map iteration order. Round 2: a lookup override the table does not know is decided as a keyed view (no key enumeration never yields, no key returned under weaker conditions than it is enumerated, every enumerated key answered); the macro-built collection's selector skips None entries like enumeration does. Round 4: Props::pull is get(key) followed by the typed cast only.",
            "custom MIR dataflow rules (visitor/ControlFlow discipline, override coherence table, forwarding)",
            "3/C02"),
    "C05": ("Decides the typestate of SpanGuard{state,data,completion} on built MIR: Completion::complete is called "
            "only in complete_default/complete_with, at most once, under the match (Started, Some, Some) of the three "
            "*taken* fields (so a later Drop finds Completed/None/None); Drop and complete() route through it; start() "
            "only moves Initial->Started(Timer::start(clock)) and writes any other state back; every SpanGuard "
            "aggregate construction takes `completion` from the previous guard (monotone enablement; in new(): Some "
            "only on the filter's accept edge) and takes state/data; Timer reads the clock once at start and once at "
            "extent, range(start..now); the default completion's panic arm; level plumbing of the macro completion "
            "hooks; argument agreement (no swapped same-typed arguments) incl. the proc-macro crate. Thorough adds "
            "the macro call-site corpus. Not decided: values of clock readings (backwards clocks). Round 2: ToExtent for Timer is Timer::extent(); the tokens the span macro passes as panic_lvl derive from the panic_lvl argument only (and lvl from the default level only), read off the quote! templates; generated hook calls agree with the hooks' parameter names; is_panicking() is std::thread::panicking() (constant false without std, thorough tier). Round 5: in the macro completion hook with_lvl and with_panic_lvl are each control-dependent on their own option only and the completion that runs has been through both. Round 7: SpanGuard has no Clone/Copy impl.",
            "custom MIR typestate/dataflow rules (guarded-call, field provenance of aggregate constructions, "
            "path-sensitive write-back) + argument-agreement lint",
            "3/C05"),
    "C03": ("Decides on built MIR (scope drops explicit on normal and unwind edges): Frame::enter / EnterGuard::drop "
            "call Ctxt::enter / Ctxt::exit exactly once on the same (ctxt, scope); in Frame::call, Frame::with and "
            "FrameFuture::poll the guard is held across the user call and dropped on the normal and on the unwind "
            "successor (also per poll); Ctxt::enter/exit are called directly only by forwarding Ctxt impls, "
            "Frame::enter and EnterGuard::drop; Frame::drop closes once, into_parts forgets; ThreadLocalCtxt::enter "
            "and ::exit are the same swap(self.id, frame), swap is mem::swap with the thread-local map entry keyed by "
            "the id parameter, current() clones that entry; the first id the counter hands out differs from the "
            "shared id; storage is thread_local!; root frames do not read current state, pushed frames are a "
            "copy-on-write snapshot overlaid with HashMap::insert, disabled = open_push(Empty); frames are Arc "
            "snapshots without interior mutability; 30 forwarding/erased Ctxt methods forward once. Not decided: "
            "that user code exits in stack order; cross-task schedules beyond the per-poll bracket. Round 4: ThreadLocalCtxt::default() is new() (a fresh id). Round 6: every wrapping/bridging impl of Ctxt defines open_push (the trait default does not reproduce the thread-local overlay); a replace-and-hand-back spelling of the swap is accepted. Round 7: Frame and EnterGuard have no Clone/Copy impl; the id counter is as wide as the ids; the thread-local frame enumerates every buffered pair; open_push never unwraps an empty snapshot.",
            "custom MIR rules: guard liveness across calls incl. unwind edges, who-may-call, provenance of map keys, "
            "constant evaluation of the id counter; compile_fail type-level witnesses (guard not Send, no double enter, no move while entered)",
            "3/C03"),
    "C04": ("Decides on built MIR: SpanCtxt::new_child returns, on every path, SpanCtxt::new(self.trace_id.or_else("
            "random), self.span_id, SpanId::random) (no early return that drops an incoming trace id); new_root; the "
            "constructor and accessors are field-faithful; SpanCtxt::current pulls the constants trace_id / "
            "span_parent / span_id into the like-named parameters and Props for SpanCtxt emits each field under the "
            "same constant (writer/reader agreement); TraceId/SpanId wrap NonZero and are never built unchecked; "
            "SpanGuard::new derives the child of SpanCtxt::current(&ctxt), shows the filter ids + ambient props and "
            "stores the child; push_ctxt pushes ids only on the enabled edge and opens a disabled frame otherwise; "
            "the begin-span hook passes rt.ctxt()/clock()/rng(), completion hooks emit with the runtime's ctxt; the "
            "typed TraceId/SpanId fast path of the thread-local buffer; the RAII frame bracket incl. unwind (ids "
            "revert when a span ends). Not decided: id distinctness (rng), schedules beyond the per-poll bracket. Round 2: every wrapper and the type-erased Ctxt bridge forward open_disabled/open_push/... to the same-named method; an id's text is read by the hex decoder only (no decimal text parse in front of it), TraceId/SpanId siblings agree; the generated __private_begin_span call passes like-named values at like-named parameters. Round 4: the hex codec rules of C15 and the completion typestate of C05 also run here. Round 6: in both arms of the span macro the setup tokens precede the __private_begin_span call in the generated code; the thread-local swap/construction rules of C03 run here too. Round 7: every Rng wrapper/bridge defines and forwards every method its siblings forward (span ids reach the configured source).",
            "custom MIR provenance rules (argument origins, constant keys vs field names, guarded calls, guard "
            "liveness incl. unwind); compile_fail type-level witness (entered guard not Send)",
            "3/C04"),
    "C06": ("Decides, on built MIR of emit_batcher (async receiver analysed before coroutine lowering), the premises of the "
            "no-loss/no-dup/no-reorder argument: each sender operation and each receive iteration is one critical section "
            "of the state mutex, and the is_open value deciding termination is read in the same section as the emptiness "
            "test; the pending batch is taken whole by mem::replace with a fresh never-filled batch under the lock on the "
            "non-empty edge; items enter the pending batch only in send/try_send, it is cleared only in send (counted on "
            "exactly those paths), replaced only by the receiver, each flag has one writer; a retry re-submits the "
            "processor's remainder with the same watchers; Sender/Receiver are generic over T: Channel only, Receiver is "
            "not Clone and is consumed by exec, nothing is spawned; no unaccounted panic-capable site in channel code "
            "outside catch_unwind. The linearisation over all interleavings is a paper step from these premises. Round 4: Retry::next is exactly current+1 (or saturating) compared <= max. Round 5: the send entry points are part of the claim: in Sender::send no path from the capacity test returns without the push except over the !is_open edge; nothing reachable from the blocking/fallible/async variants truncates. Round 6: bounded() starts open, idle and empty with the capacity given and one shared state. Round 7: Sender and Receiver have no Clone/Copy impl (Drop for Sender closes the channel); a truncation adds exactly one to its counter.",
            "custom MIR rules: lock/critical-section counting, guard provenance of field reads, who-may-write table, "
            "predicate (bound) inspection, panic-site inventory",
            "3/C06"),
    "C07": ("Decides on built MIR: when_flushed fires at once exactly when !is_in_batch && (pending.is_empty() || "
            "!is_open) (truth table over all 8 states extracted from the CFG) and otherwise attaches the callback to "
            "the pending batch under the lock; the receiver sets/clears is_in_batch with the swap / watcher take; flush "
            "watchers are notified outside the retry loop, on every exit of it and before exec returns, and travel with "
            "a retried remainder; only the receiver replaces the pending batch or its watchers; blocking/async flush "
            "wait on the notifier their callback triggers and return its result; end to end: the file worker returns Ok "
            "only after flush+sync_all, the OTLP transport only when no request is left, every OTLP signal sender is "
            "flushed and a failed one fails the flush, wrappers forward. Not decided: timeouts, receiver scheduling. Round 2: flush/empty watchers are fired only by the receiver on the batch it took, never by a sender on the pending batch. Round 4: every configured OTLP signal is flushed on every path that reports success. Round 6: Trigger::wait_timeout returns true only where its latest reading of the flag was true; push_on_X appends to the list notify_on_X empties; bounded() starts idle. Round 7: Sender/Receiver are not Clone; the write_event rule of C10 runs here too.",
            "custom MIR rules: path-condition truth tables, natural-loop membership and must-pass-through, provenance",
            "3/C07"),
    "C08": ("Decides on built MIR: the processor runs only inside catch_unwind and its future is polled only through "
            "CatchUnwind; watchers are drained once and each runs inside catch_unwind; every back edge of the retry loop "
            "is control-dependent on Retry::next() and a non-empty remainder, budget and delays reset per batch, back-off "
            "clamped; no await / callback / notification / wait while the state lock is held (guard liveness); dropping "
            "sender or receiver closes the channel under the lock; exec returns only on the empty arm with the channel "
            "closed, decided inside the one critical section; tokio blocking entry points never call block_on and call "
            "block_in_place only under a runtime-flavour check (fixed defect); send_or_wait waits the remaining time; "
            "panic-site inventory of channel code outside catch_unwind. Not decided: bounded time, OS scheduling. Round 2: the wait callback handed to send_or_wait captures nothing derived from the caller's total timeout and waits for its own (remaining-time) parameter. Thorough tier repeats the channel rules on the build without tokio. Round 4: Duration/SystemTime/Instant operators outside a reasoned table are reported (they panic on overflow). Round 5: every Result-returning call in the channel crate is inspected (reasoned allow table); the tokio worker blocks on a Runtime built in place with timers on, never on a borrowed Handle; each OTLP signal is flushed with the time remaining after the previous one; the retried batch keeps the current batch's watchers (root provenance). Round 6: when_empty/when_flushed invoke or park their callback exactly once on every path in the list of their own event; send_or_wait's expiry test is elapsed() >= timeout and its callers' elapsed callbacks return a clock reading; back-offs are configured with 0 < min <= max. Round 7: Sender/Receiver are not Clone; an expired send_or_wait returns (no further wait or attempt is reachable from the expired edge).",
            "custom MIR rules: containment (who-may-call), loop back-edge control dependence, guard liveness, effect names",
            "3/C08"),
    "C09": ("Decides on built MIR: send tests len >= max_capacity under the lock, clears on the full edge, counts the "
            "truncation on exactly those paths, pushes afterwards and never waits; try_send pushes only under len < "
            "max_capacity, hands the caller's item back when full and fails permanently when closed; send_or_wait uses "
            "try_send only (never the discarding send), re-sends the handed-back item, waits the remaining time and "
            "returns the item on expiry; the file and OTLP emitters' emit() reach (call graph over workspace bodies) no "
            "filesystem/network/sleep/condvar/block_on/blocking-send effect and end in Sender::send; for every impl "
            "Channel, clear() resets each field push() updates or len() reads, and the OTLP channel's len is its event "
            "count. Not decided: effects inside dependencies, wall-clock bounds. Round 2: same wait-closure rule as C08. Round 5: nothing reachable from the blocking, fallible or async send variants calls the truncating Sender::send or Channel::clear; send always enqueues once past the capacity test. Round 6: send_or_wait reports Ok only on the Ok edge of a try_send (never on expiry); the sender's capacity is the argument of bounded(). Round 7: Sender/Receiver are not Clone.",
            "custom MIR rules: comparison-operator and edge inspection, call-graph effect reachability, field read/write sets",
            "3/C09"),
    "C10": ("Decides the worker's structure on built MIR (not what the OS does): every Ok return is dominated by "
            "Write::flush then sync_all on the active file, on the success edge of both `?`; the active file is taken at "
            "entry and stored back only after the successful sync; the cursor advances only on write_event's Ok edge and a "
            "failed write returns retry(err, the same batch); in write_event the separator is written under "
            "file_needs_recovery, the flag is set before and cleared only after a successful write_all of the event, no "
            "bare Write::write; reuse opens in recovery mode, create clean; open_new = create_new+append, open_existing "
            "append-only, parent directory synced before a created file is used; emit() appends a missing separator; "
            "advance() steps by one and subtracts the taken length; events the cursor moved past are synced before any "
            "return (one known finding). Not decided: byte identity, the in-memory fault model. Round 2: the channel's retry budget is reset per batch and the retry loop re-submits the returned remainder (shared with C08/C06). Round 5: every Result-returning call in emit_file (143 sites) is inspected outside a 3-row reasoned table (error discipline). Round 6: the std::fs adapters perform the like-named std operation on their own file/path (table); the configured separator and writer reach worker and emitter unchanged. Round 7: any further io::Write method defined on StdFile forwards to the same-named std method (no weakened write_all).",
            "custom MIR rules: dominance/must-pass-through with ?-success edges, field-write ordering, constant options",
            "3/C10"),
    "C12": ("Decides on built MIR (async bodies pre-lowering): in OtlpTransport::send each iteration peeks one request, "
            "awaits send_batch and removes exactly one request with the operation matching the peeked end (last/pop), "
            "only on the Ok edge, from a single site; the Err edge returns the channel untouched with retryability "
            "preserved; Ok only on the no-request-left edge; Channel::push adds the event to exactly one request and "
            "counts it once; one Receiver::exec with its own transport per signal; the cached connection is taken before "
            "and handed back only after a successful request, inside tokio::time::timeout; the accepted status sets "
            "computed from the comparison constants are exactly HTTP 200..=299 and grpc-status 0; a transport error is "
            "retryable. Not decided: network/collector behaviour, back-off timing. Round 2: every configured signal is flushed and a failed one fails the flush; the channel's retry budget resets per batch. Round 5: every Result-returning call in the OTLP client (77 sites) is inspected outside a 1-row reasoned table; the when_flushed decision table of C07 runs here too. Round 6: constructors named http/grpc/proto/json build the transport, encoding and service path their names say and each signal module names its own collector service; Proto/Json match arms are not crossed; poison() empties the connection slot on every path; the receiver-flag rules of C07 run here too. Round 7: Sender/Receiver are not Clone; every awaited Result-yielding client future is inspected; EncodedPayload::len counts bytes; every HTTP connection handed out is driven by a spawned task; the running request size follows every push.",
            "custom MIR rules: await-source resolution, per-iteration removal counting, value-set evaluation of guards",
            "3/C12"),
    "C14": ("Decides on built MIR: on every path through OtlpInner::emit exactly one of {Sender::send on the metrics / "
            "traces / logs sender, event_discarded.increment} happens; encoders are consulted in the order metrics, "
            "traces, logs, an accepted event never falls through, and the sender used is the one bound in the same tuple "
            "as the encoder whose Some payload is sent; the traces encoder produces a payload only on the accept edge of "
            "is_span_filter() and the ?-success edge of extent().and_then(as_range); the metrics encoder only under "
            "is_metric_filter(), a present metric_value and ?-checked points_from_value, whose Value::stream result is "
            "?-checked and whose stream impl makes text/bool/null errors; the logs encoder has no declining path; "
            "is_span_filter/is_metric_filter build KindFilter(Span/Metric), KindFilter::matches compares "
            "pull::<Kind>(\"evt_kind\") with its own kind; FromValue for Kind = downcast then Value::parse; the kind's "
            "text constants agree between Display and FromStr. Not decided: which sval calls a runtime value produces. Round 2: the metrics encoder declines only for a non-metric kind or a missing/unusable metric_value, never because another property (metric_agg) is absent. Round 4: the traces encoder declines only on the kind filter or a missing/point extent; the OTLP send loop rules of C12 run here too. Round 5: FromValue for Kind cannot answer before the typed-value attempt and the lenient parser (no exact-text shortcut). Round 6: the discard counter is bumped with one atomic read-modify-write (counter rule of C09 over emit_otlp). Round 7: the tag-override rule of C13 runs here too.",
            "custom MIR rules: path enumeration with per-path counting and provenance, guard edges, error-discipline "
            "(ignored Result) check, sibling-impl agreement",
            "3/C14"),
    "C11": ("Decides on built MIR of emit_file: the active file is kept iff file_size_bytes + remaining_bytes <= "
            "max_file_size_bytes AND its period == the period of the current clock reading (String equality, truth table "
            "over both atoms; an ordering comparison is rejected); ActiveFileSet::apply_retention is preceded by "
            "ActiveFileSet::read on every *feasible* path that creates a file (constant-flag path sensitivity), with bound "
            "max_files.saturating_sub(1), before try_open_create (fixed defect); Filesystem::remove_file is called only in "
            "apply_retention with dir joined with a name popped from its own listing, no unwrap on the pop (fixed defect); "
            "sort order of the listing, the end current_file_name() reads and the end retention removes are consistent; "
            "file_name() formats prefix, period, id, ext in that order and read_file_name_ts() reads part 1 of split('.'); "
            "new files are named from the period of this batch's clock reading; only entries matching prefix and extension "
            "enter the listing. Every numeric component of a name is written zero-padded to a fixed width, coarse to fine (format templates decoded from the constant the compiler emits). Not claimed: prefix-extending sibling sets, calendar arithmetic. Round 2: the set directory returned for a template is tested for emptiness and replaced (fixed defect: bare file names); retention is a loop that deletes while len >= bound, bound = max_files.saturating_sub(1); the name's counter is the whole time elapsed since the start of the current day/hour/minute (exact field sets per arm) of the batch's one clock reading, which also gives the period; an opened file's period is parsed from the name of the very path that was opened. Round 4: the Channel impl rules (clear() zeroes every counter it assigns) run here too. Round 5: a directory entry joins the set only through a decision in which the `.` separator takes part next to prefix/extension, and in which both the configured prefix (prefix-side test) and extension (suffix-side test) take part - written inline, in closures or in a predicate function, directly or through formatted copies (found D21, fixed); the rewind rule of C10 runs here too. Round 6: every builder option reaches Worker::new / FileSetInner unchanged under its own name; StdFile::len is metadata().len(). Round 7: ActiveFileSet::read stores the sorted listing on every Ok path; every buffer written to the active file is added to file_size_bytes on every path to the write.",
            "custom MIR rules: truth table of a closure predicate, feasible-path must-pass-through, who-may-call, "
            "provenance of deleted paths, sibling agreement (sort/first/pop), format-argument order",
            "3/C11"),
    "C13": ("Decides: (R1) an inventory of panic-capable sites (explicit panics/todo!, unwrap/expect, bounds/overflow/"
            "div asserts, str range indexing) over every workspace body reachable from the four sinks' emit() in the call "
            "graph plus every workspace impl of sval/sval_ref/fmt/serde traits in the sinks' data code (dependency "
            "callbacks), each discharged structurally or by an allow row with a reason; the six todo!() sites for "
            "non-string map keys are known findings; (R1b) no thread-local RefCell borrow is held across Value::stream "
            "(re-entrant emit); (R2) every encoder enumerates event props through Props::dedup() (one fixed defect); (R3) "
            "every hand-written sval (label, index) pair in the OTLP encoders names a field of the vendored official "
            "prost schema with that tag and lowerCamelCase JSON name, LABEL/INDEX stems agree (one fixed defect: "
            "asInt/asDouble); (R4) well-known keys are lifted to their fields and not re-emitted under their own key; (R5) "
            "the file writer's fields are begin/end balanced. Not decided: structure preservation, 128-bit/non-finite "
            "rendering, JSON well-formedness (sval_json/sval_protobuf/value-bag). Round 2: the terminal sparkline index is discharged by shape (normalise-then-scale with the division first, K = len-1) instead of an allow row; only identifier-literal labels may carry sval's no-escaping tag (computed property keys are escaped); argument agreement sees through trait-method calls (start/end time of metric points). Round 4: where a sink enumerates properties into an open sval structure and stops on a stream error, the enclosing function must not close the structure as if complete (found D19, fixed; the OTLP attribute streamer is known finding D20); integer metric points are combined with checked arithmetic only. Round 6: Proto/Json match arms use their own encoder, label and content type; JSON id carriers stream the id's own Display and protobuf ones its big-endian bytes; sequence-valued metric points are contiguous buckets (start, advance, end by statement order). Round 7: no sval stream of the encoders overrides `tag` without examining the tag; the division by the number of points is discharged by a dominating switch on the divisor (allow row removed); OTLP durations are converted with as_nanos only.",
            "call-graph reachability + panic-site inventory on MIR, guard liveness, provenance of for_each receivers, "
            "declarative-table cross-check (sval attributes vs prost-generated schema)",
            "3/C13"),
    "C15": ("Decides: (R1) over the workspace call-graph closure of every parser entry point (FromStr impls, try_from_str/hex, "
            "Value::parse, FromValue casts, Path constructors / is_valid_path / is_child_of, parse_rfc3339 + from_parts, the id "
            "text buffers) every panic-capable site is discharged by an interval-lite argument (constants, type ranges, "
            "dominating length/comparison guards, x % len, u8-indexed 256-tables, guarded ranges, get(0)-guarded [1..], "
            "is_char_boundary-guarded split_at, copy_from_slice by construction) or an allow row with a reason; str range "
            "indexing and sign-accepting integer parsers are forbidden in fixed-layout parsers (three fixed defects); (R2) "
            "the compiler-evaluated hex tables are mutual inverses, 0xff exactly for non-hex, nibble table exact, and the "
            "0xff sentinel is tested; Level Display texts are accepted prefixes; (R3) the automaton extracted from "
            "is_valid_path by abstract interpretation over 5 character classes accepts every ident(::ident)* and nothing "
            "outside seg(::seg)* (fixed defect); (R4) traceparent offsets (55; 2,35,52; 0..2,3..35,36..52,53..55) and RFC 3339 "
            "separator offsets with ?-checked fields; FromValue casts are downcast-then-text-parse. NOT decided (and one "
            "seeded change in to_parts is missed for that reason): format/parse identity of timestamps, calendar "
            "conversion, lexicographic order, acceptance of every well-formed level text. Round 2: the path automaton has '_' as its own class and its lower bound is Rust identifiers (fixed defect: a::_1 rejected); hex ids are never decimal-parsed from text. Round 4: no Result produced inside the parser regions is discarded (text buffering included); a Path is built from runtime text only on the accepting edge of is_valid_path (who-may-call rule for the *_raw constructors); a leap-year computation without century terms is reachable only for years below 2100 (guard constant). Round 5: no from_value of a well-known type returns before the typed-value attempt; every accepting path of the traceparent parser has examined all four field slices; the leap day is counted from March on (month base and constant agree). Round 6: a conditionally corrected quotient of the calendar conversions is never read before its correction.",
            "panic-site inventory with interval-lite abstract interpretation on MIR, constant-table evaluation by the "
            "compiler, finite-automaton extraction by abstract interpretation, layout-constant agreement",
            "3/C15"),
    "C16": ("Decides on built MIR of emit_core::template: Template::eq and what it reaches never range-indexes or splits a str "
            "(fragments compared as bytes; fixed defect) and every other panic-capable site is discharged or allow-listed; after "
            "the common prefix both leftover tails are inspected in a loop where a non-text part (a hole) or non-empty text "
            "returns false; hole labels are compared; Part::write reaches write_text iff Text, write_hole_fmt iff Hole & "
            "props.get(label)=Some & formatter=Some, write_hole_value iff Hole & Some & no formatter, write_hole_label iff Hole & "
            "None (guards read off the CFG), looks up and writes the hole's own label and the found value, returns each result; "
            "Render::write loops over parts() in order and ?-propagates; `&mut W` forwards each Write method; Part::by_ref / "
            "to_owned rebuild Text as Text and Hole as Hole with every field taken from the same field of the source (label, "
            "formatter); TemplateKind::parts covers every variant; Template::to_owned goes through Part::to_owned. Not decided: "
            "that eq is an equivalence insensitive to fragment splitting (a value-level defect for an empty fragment next to a "
            "hole is known and out of reach). Round 2: each cursor of eq indexes only the sequence whose length bounds it (contradiction rule); #[emit::fmt] flags reach the generated format string verbatim; generated __private_format/emit calls agree with the hooks' parameters. Round 4: every return of Render::write goes through the loop over the parts and the writer is handed to nothing but Part::write; the macro's template visitor copies each text fragment unchanged into the literal and the generated Part::text. Round 5: #[emit::fmt] stores the flag string exactly as written in both argument forms. Round 7: the macro-props lookup rule runs here too; format! returns the buffer the template was rendered into.",
            "custom MIR rules: panic-site inventory with interval-lite discharges, guard-edge conditions, aggregate field "
            "provenance, forwarding",
            "3/C16"),
    "C17": ("Decides on built MIR of emit::level / emit_core::path: MinLevelFilter::matches returns "
            "`pull::<L>(\"lvl\").as_ref().or_else(self.default).unwrap_or(&L::default()) >= &self.min` (operator, operand "
            "order, precedence own level > configured default > type default); builders store min/default in the right "
            "fields; Level is declared Debug < Info < Warn < Error with derived (discriminant) Ord and default Info; the only "
            "mutation of PathNode::children is one Vec::insert at the Err index of the binary search on the same vector, and "
            "registration and lookup search with the same function and the same key projection and for the current segment; "
            "lookup starts from the root level, replaces it with child.min_level.or(previous) inside the walk (closest dominating "
            "definition of `node`), cannot reach another search from the not-found edge (break, not continue), and returns "
            "Option<&MinLevelFilter>::matches(evt) over the event's module; registration overwrites exactly the final node; "
            "Path::segments splits on \"::\"; FromValue for Level is downcast-then-Value::parse. Not decided: the lenient "
            "level parser's language. Round 4: FromIterator for the path map registers each pair once through min_level in input order (no sorting, de-duplication or dropping in between). Round 6: registration stores are unconditional overwrites of exactly the level given; intermediate trie nodes carry no level. Round 7: any from_iter of the map, trait or inherent, is held to the registration discipline.",
            "custom MIR rules: call-chain provenance, dominance-sensitive definitions, who-may-mutate, sibling comparator "
            "agreement, ADT declaration order",
            "3/C17"),
    "C18": ("Decides on built MIR of emit_traceparent: in incoming_traceparent the sampler is called at one site, at most once, "
            "only on the arm where get_active_traceparent().filter(Traceparent::is_valid) is None (is_valid requires trace id "
            "AND span id) and under trace_flags.is_sampled(); the child arm builds Traceparent::new(active.trace_id, "
            "Some(span_id), active.trace_flags & incoming) with the active tracestate and the active span id as parent; "
            "incoming_traceparent has exactly four callers: the three open_* pass None (flags ALL/ALL/EMPTY) and "
            "TraceparentFilter::matches passes its own sampler only under is_span_filter(); the filter returns the incoming "
            "is_sampled() for spans and true otherwise; InSampledTraceFilter returns the active flag else its default; enter and "
            "exit both store set_active_traceparent(frame.slot.take()) back into frame.slot under frame.active and forward once "
            "to the inner ctxt; set_active_traceparent is mem::replace on the thread-local returning the previous value; frames "
            "carry slot/active/inner consistently; with_current synthesises SpanCtxt(trace_id, span_parent, span_id) only when "
            "sampled, else empty; ExcludeTraceparentProps drops the three id keys under `check`. 'Exactly once per trace' "
            "across threads follows from these + C03 (paper step). Round 2: is_sampled() masks with SAMPLED; frames are entered/exited only through the RAII guard (held across the body, dropped on unwind) so the previous traceparent is restored on every exit; a guard the filter rejected never runs a completion (shared with C03/C05). Round 7: push fills the frame's slot and marks it active on every path; on the span path TraceparentFilter::matches returns the incoming traceparent's sampled flag.",
            "custom MIR rules: guard edges and closure return provenance, who-may-call with argument shape, field-write "
            "provenance, aggregate field origins; compile_fail type-level witness (entered guard not Send)",
            "3/C18"),
    "C20": ("Decides on built MIR and the ADT/impl tables: AmbientSlot is a single OnceLock<AmbientSync>; across emit_core "
            "the only OnceLock methods used on it are new/get/set, set at exactly one site; AmbientSlot::init's success is "
            "decided by OnceLock::set (its result is ?-checked via .ok()?), no inspection of the slot precedes set "
            "(check-then-set race), the read-back get() is only on set's success edge and every Some return is dominated by it; "
            "the published AmbientSync is one aggregate whose five runtime pointers are as_super() of value.emitter()/filter()/"
            "ctxt()/clock()/rng() of its own value; AmbientSync and Runtime have no interior mutability; get() falls back to the "
            "constant EMPTY_AMBIENT_RUNTIME built from five Empty; Empty's emit/enter/exit/close have no calls, "
            "matches/blocking_flush are constant true, now() is None; Setup::try_init_slot assembles the runtime from its own "
            "five fields, ?-checks init, and reads slot.get() for the Init handle only after (on the success edge of) init; "
            "init_slot = try_init_slot(..).expect(..); is_enabled = get().is_some(); the unsafe Send/Sync impls are conditional. "
            "The behaviour under all interleavings then rests on the OnceLock contract (trusted). Round 2: every runtime assembled in emit::setup (chain from Runtime::new() or Runtime::build) carries all five components from the like-named fields; the crate-level accessors and blocking_flush are straight-line reads of runtime::shared() (flush true before init). Thorough tier: the no_std slot is constant-empty and never enabled. Round 4: the installed Runtime passes its own components, runs its own pipeline and forwards blocking_flush unconditionally (rules shared with C01). Round 7: every Rng and Clock wrapper/bridge (the erased views the slot hands out) defines and forwards every method.",
            "custom MIR rules: API-usage whitelist on a type, error discipline, dominance on ?-success edges, aggregate "
            "provenance, ADT interior-mutability scan, impl predicates",
            "3/C20"),
    "C19": ("Decides only the in-repository dispatch, from resolved callees on built MIR: each of the 15 "
            "__private_capture[_anon]_as_X hooks calls the capture trait of its own mode once on self and returns it; every "
            "`impl CaptureX for T` builds its value with the Value constructor of that mode (capture_* keeps the type id, "
            "from_* anonymous; concrete-type impls use to_value) and returns Some of it; every Value::capture_*/from_* calls "
            "the like-named value-bag constructor; optional hooks are into_option().and_then(map) and Capture* for Option<T> "
            "is and_then; macro-built props skip a None entry and continue enumerating (the None edge re-enters the loop and "
            "reaches no visitor call); Value and OwnedValue forward sval/serde/Debug/Display to the wrapped bag; buffering "
            "into the thread-local ambient context only downcasts (TraceId/SpanId) or to_shared()s and never calls a "
            "parse/format/cast function; owned/shared copies are the bag's. NOT decided (the larger part of the property): "
            "what consumers observe through value-bag / sval / serde bridging. Round 2: the attribute -> hook table of the proc-macro crate selects, for each #[emit::as_*], the inspecting and anonymous capture hook of its own mode (read off quote! templates); lookup in macro-built props skips None entries. Round 4: every field of a macro argument struct is the argument's value, never a presence test; impl ToValue for dyn Error/Debug/Display uses the bag constructor of its own trait. Round 5: stacked attributes compose: the evaluator call in eval_hooks' attribute loop takes a loop-carried accumulator (its own previous output), which is what is returned. Round 6: the thread-local frame construction rules (every pushed pair is inserted on every path) run here too. Round 7: the lossless-cast rule of C13 runs here too.",
            "custom MIR rules: resolved-callee mode tables (writer/reader agreement across three layers), loop-edge "
            "reachability, forbidden-call whitelist",
            "3/C19"),
}

REASONS_NOT_YET = "check not built yet (build in progress; DESIGN.md section 3 lists the planned rules)"

checks = []
na = []
# additions of round 8 (kept apart from the long literals above)
ROUND8 = {
    "C01": "in __private_emit_event and __private_evt the receiver of the one and_props roots in the hook's call-site props parameter and the argument in the carried-in list (call-site props win on a duplicate key).",
    "C03": "impl Ctxt for Option<C>: enter/exit hand the inner context a place inside the caller's &mut frame (no value moved out of it), open_* return the inner frame over the caller's props; every mutable-borrow call on the shared per-thread map in swap/current is keyed by the function's own id.",
    "C04": "a random trace/span id is the rng's draw and nothing else (one draw site, no substitute operation or value constant in what is returned); the Option<C> context rules and the no-truncating-adaptors rule run here too; compile-fail witness: an entered span frame's guard is not Send.",
    "C07": "the OTLP send-loop rule (the request removed is the request sent, from the same end, only on the Ok edge) runs here too.",
    "C08": "with the removing call's block taken out the file worker's retention loop header cannot reach itself (a failing delete cannot wedge on_batch).",
    "C09": "every path through the blocking/async send wrappers passes a call that takes the item; Channel::clear empties a collection field whole (clear, truncate(0), drain(..) over RangeFull), never a computed part of it.",
    "C10": "BatchError::no_retry in on_batch only on the failed final flush/sync, every earlier failure hands the batch back; the writer's buffer is fresh or emptied on every path before or after the writer call and is what gets queued; retention removes from the oldest end (order-agreement rule of C11).",
    "C11": "wrapper families for File and Filesystem (method union over all impls of the trait, so a required method turned into a default is still demanded of the wrappers); the component count of a listed name is of the whole name (no splitn/take/nth/skip); the retention loop shrinks the listing on every iteration.",
    "C13": "no mutex guard is held across an indirect / Fn* / foreign fmt-sval-serde call in the non-worker code of the sink crates (positive control: the detector finds the batcher's lock regions); a default timestamp replaces only an absent extent, never a chain from extent() that was narrowed first.",
    "C18": "TraceparentCtxtProps::for_each enumerates the ids synthesised from the active traceparent before the wrapped props; compile-fail witness: an entered traceparent frame's guard is not Send.",
}

ROUND9 = {
    "C01": "where a wrapping reads the event twice (FromFilter::wrap) both reads are of one conversion of the caller's value (the wrapping snapshots, or Wrap::emit passes evt.to_event()).",
    "C02": "an enumeration loop of any Props::for_each impl is left only on exhaustion of its iterator or on a Break from the visitor / inner for_each.",
    "C08": "the error (and item) of every failed attempt in send_or_wait is carried on, never matched and dropped.",
    "C09": "the error (and item) of every failed attempt in send_or_wait is carried on, never matched and dropped.",
    "C10": "the flush decision table (when_flushed) and the receiver's in-batch flag rules of C07 run here too; the flush-and-sync helper summary is shared by every C10 rule that needs the durability point.",
    "C11": "the carried-over active file and the file re-opened for reuse both pass the fits-and-same-period decision before the first write (must-pass on the CFG).",
    "C13": "the AnyValue bridge (AnyStream) is checked as a bracket grammar over success-path token sequences (scalars forwarded once inside a well-nested frame of their own label; text/binary/sequence/map groups close what they open under equal label and index values; fragments forwarded; in_map_key raised for exactly a key) and all sval::Value impls of the OTLP data code are well-nested; metric samples reach their points with value and both times, nested sequences are rejected; the writer-buffer rule of C10 runs here too.",
    "C14": "Kind's Display and FromStr tables agree variant by variant (the accepting edge of the comparison with a variant's text returns Ok of that variant).",
    "C15": "the RFC 3339 formatter overwrites every 0 of its template once with the right decimal digit of the right calendar part (template runs against the Parts fields in order, divisors 10^k, % 10) and its fraction loop steps cursor and divisor; the parser checks Z at the last byte on every accepting path, separator() fails on a mismatch, digits() returns value*10 + (byte - b'0'), an empty fraction is rejected; Kind's text tables agree variant by variant.",
    "C16": "Template::eq ends in false on the unequal edge of every comparison (text bytes, hole labels, text against hole, non-empty left-over text), its cursors advance in mirrored pairs, it answers true only behind the complete comparison or an identity test of address and length; Part::with_formatter stores the formatter.",
}

ROUND10 = {
    "C01": "every filter a span macro consults before beginning (call-site `when` and runtime filter) is given the event with the macro-assigned level attached.",
    "C04": "the loop-exit rule of C02 runs here too.",
    "C05": "the panicking arm of the default completion uses panic_lvl and the constant error, never the span's ordinary level; no Completion impl that emits directly consults a filter (the empty filter is passed).",
    "C06": "layering: the channel state is locked only inside methods of Sender / Receiver / ChannelMetrics; the sync / tokio adaptors go through when_flushed / when_empty / try_send.",
    "C07": "layering rule as C06; along every path of OtlpInner::blocking_flush each signal's flush outcome is tested or part of what is returned.",
    "C09": "send / try_send / when_* are each one critical section of the state mutex (rule of C06-C08, which sees through new helpers); each signal's channel metrics are sampled from that signal's own sender; layering rule as C06.",
    "C12": "thorough tier re-runs the client rules on emit_otlp built without default features (K5): the transport's request hook (gRPC framing) is applied to the content on every path to send_request; channel-metrics wiring as C09.",
    "C13": "C13.R7 covers every function of the OTLP data code and the file writer that writes sval frames (48 bodies), per success path and per loop iteration, and demands a value in every element frame; the bridge overrides all four fragment methods; the loop-exit / no-truncating-adaptor rules of C02 run here too.",
    "C15": "thorough tier adds the no-alloc build (K2a): a parse result is stored by Value::parse's visitor only on the success edge of every fallible formatting call; the id capture hooks hand on the text they are given through value conversions only.",
    "C16": "every ToValue / sval / serde view of a Render hands on the rendering (or the literal on the Some edge of as_literal()), never the bare template.",
    "C17": "the span macros' begin filter gives every filter it consults the event with the macro-assigned level attached.",
    "C18": "the setup-before-begin rule of C04 (proc-macro token order) runs here too.",
    "C19": "in emit_macros::props::Props::push a key-value's attributes are read through no early-stopping adaptor and the loop over them is left only on exhaustion or with the duplicate-cfg error; the loop-exit rule of C02 runs here too.",
    "C20": "the setup-before-begin rule of C04 runs here too (a setup that initialises the slot has run before the span evaluates its runtime).",
}

ROUND11 = {
    "C02": "an entry of a macro-built collection whose optional value is None is neither enumerated nor the end of the enumeration (rule shared with C19); no step of a map view (AsMap's sval / serde / fmt impls) discards its Result.",
    "C06": "whether a returned remainder is re-submitted depends only on the processor's outcome, the remainder being non-empty (polarity checked) and the retry budget - not on the channel being open; the provided Channel::is_empty is len() == 0.",
    "C07": "the flag a blocking flush waits on starts unset.",
    "C08": "a worker that drives several receivers (emit_otlp) finishes only when every receiver has finished (found defect D23, fixed); block_in_place only on the MultiThread edge of the flavour test; the trigger starts unset; the time left of a blocking wait is timeout minus elapsed, never more.",
    "C09": "EventBatch::len is bufs.len() - index.",
    "C10": "EventBatch::len is bufs.len() - index.",
    "C11": "a name that fails a membership test is not a member of the file set (polarity of every test in is_file_in_set); the real file system's listing yields exactly the entries that are regular files, by path.",
    "C12": "workers-run-to-completion as C08; the TLS handshake is performed exactly for https endpoints; a request's declared content length is framing prefix plus payload.",
    "C13": "a property's stream error that the OTLP attribute streamer hands on must not meet an unwrap / expect in the encoders; a metric sample is declined (None) only when it has no numeric point; the running sum accumulates by addition; points are spread over end - start; no streaming step of the OTLP data code or the file writer discards its Result.",
    "C14": "a metric sample is declined by its encoder (and so exported as a log) only when it has no numeric point.",
    "C15": "fixed-layout text forms (ids, flags, traceparent, timestamp, level, kind) ignore the caller's width / precision flags (no Formatter::pad, no hand-over of the formatter to a padding Display); the every-fourth-year rule of from_parts is applied only to a non-zero within-century remainder; each of the three `-` separators of a traceparent header is required on its own; the Display impls of the text forms propagate every write's outcome.",
    "C16": "an empty text fragment facing a hole is stepped over, never a mismatch (found defect D22, fixed); every writer's write_hole_fmt renders the value through the formatter it is given.",
    "C17": "the level inherited at the start of the lookup walk is the map's default (every definition of the accumulator that reaches the combining step from before the loop is root.min_level).",
    "C18": "every wrapper / erased bridge of Ctxt forwards open_disabled (wrapper-family rule of C03 run here); ExcludeTraceparentProps hides the id keys exactly when `check` is set and incoming_traceparent sets it exactly when it derived a traceparent; Traceparent::is_valid and ActiveTraceparent::is_parent_of are the conjunctions their comments state.",
}

ROUND12 = {
    "C02": "no Props::for_each impl constructs a Break of its own (only behind a Break from the visitor or an inner enumeration); every fallible step of the proc-macro crate hands its error on, so duplicate keys are rejected rather than dropped.",
    "C03": "ThreadLocalCtxt::enter / exit hand the frame to nothing but the swap and never write into it (a frame is the snapshot taken when it was opened).",
    "C07": "And::blocking_flush is the conjunction of both sides (table of C01); the retry decision's polarity rule runs here too.",
    "C08": "tokio::wait does not report failure on a path where the notifier was observed to have fired.",
    "C10": "the retry decision's polarity rule runs here too.",
    "C11": "a member's name has exactly as many dotted components between prefix and extension as the writer's templates produce (equality, constant read off the templates).",
    "C12": "the response body is read frame by frame to its end, trailers included; the request body reports its end exactly when prefix and payload were handed over; the retry decision's polarity rule runs here too.",
    "C13": "an encoder declines an event only on the conditions of its signal's routing contract; the span status follows the level as a table over the four variants.",
    "C14": "decline conditions as C13; the metric extractor's sequence-flag rule of C13 runs here too.",
    "C15": "interval analysis of the years-within-century remainder of from_parts: it reaches the every-fourth-year step within [0, 99].",
    "C01": "And::blocking_flush never grows the timeout it hands to its sides.",
}

ROUND13 = {
    "C02": "a visitor closure that parks a fallible step's outcome in a captured slot keeps the first failure (stores on Err only, or breaks).",
    "C05": "no caller-supplied code runs between a SpanGuard method taking the guard apart and rebuilding it (known finding D24: map_props).",
    "C10": "a file reopened for reuse has its directory entry synced before anything is acknowledged into it (found defect D28, fixed).",
    "C11": "the retention loop is left only when the listing is short enough or empty, never because a delete failed.",
    "C12": "the gRPC response handler reads grpc-status from the response headers as well as the trailers (found defect D26, fixed) and, like the HTTP one, acknowledges only on the 2xx side of a test of the HTTP status (D27, fixed).",
    "C15": "the RFC 3339 parser admits exactly the lengths the formatter's template can produce; the month table of from_parts is the cumulative day counts of a common year; the leap flag follows the Gregorian rule arm by arm.",
    "C16": "a hole value written through a fmt::Formatter does not inherit the caller's format flags (found defect D25, fixed).",
    "C17": "every proc-macro entry point that is given a level hands it on (lvl property / span injection) on every token-producing path.",
    "C19": "parked-outcome rule as C02 (the map views' serde / sval impls).",
}

for p in props:
    pid = p["id"]
    if pid in CLAIMS and os.path.exists(os.path.join(VERIF, "rules", pid.lower() + ".py")):
        text, tech, ref = CLAIMS[pid][:3]
        if pid in ROUND8:
            text = text.rstrip() + " Round 8: " + ROUND8[pid]
        if pid in ROUND9:
            text = text.rstrip() + " Round 9: " + ROUND9[pid]
        if pid in ROUND10:
            text = text.rstrip() + " Round 10: " + ROUND10[pid]
        if pid in ROUND11:
            text = text.rstrip() + " Round 11: " + ROUND11[pid]
        if pid in ROUND12:
            text = text.rstrip() + " Round 12: " + ROUND12[pid]
        if pid in ROUND13:
            text = text.rstrip() + " Round 13: " + ROUND13[pid]
        checks.append({
            "property_id": pid,
            "quick_cmd": "./check %s --tier quick" % pid,
            "thorough_cmd": "./check %s --tier thorough" % pid,
            "evidence_file": "/verif/evidence/%s.json" % pid,
            "replay_cmd_template": "./check %s --explain {path}" % pid,
            "engine": "mirfacts+rules",
            "level_claimed": {"category": "other", "text": text, "design_ref": "DESIGN.md section %s" % ref},
            "level_note": COMMON_NOTE + (" " + CLAIMS[pid][3] if len(CLAIMS[pid]) > 3 else ""),
            "technique": tech,
        })
    else:
        na.append({"property_id": pid, "reason": REASONS_NOT_YET})

m = {
    "version": 1,
    "setup_cmd": "./setup.sh",
    "hooks": {
        "guard": "emit_rs_emit_verif",
        "enable": "none needed: static analysis of the unmodified source; guard name reserved, no hook commits exist",
        "baseline_off_cmd": "cd /repo && cargo test --workspace --no-fail-fast --offline",
        "source_commits": [],
        "add_only": True,
    },
    "engines": [
        {"name": "mirfacts", "path": "engines/mirfacts", "serves_properties": [c["property_id"] for c in checks],
         "kind_free_text": "rustc_private driver (nightly) injected with RUSTC_WORKSPACE_WRAPPER under cargo check: dumps "
                           "built MIR, ADTs, impls, statics and evaluated constants of the workspace crates as JSON"},
        {"name": "rules", "path": "rules", "serves_properties": [c["property_id"] for c in checks],
         "kind_free_text": "Python rule engine over the facts: CFG, dominance, provenance, path counting, truth "
                           "tables, guard liveness, call graph + effects; one module per property"},
    ],
    "checks": checks,
    "notes": "Static analysis only: no registered command runs emit code or its tests. fix: commits in /repo and known "
             "findings are listed in known_findings.json. Self-test of the checker (seeded mutants): selftest/run.py.",
    "not_applicable": na,
}
json.dump(m, open(os.path.join(VERIF, "MANIFEST.json"), "w"), indent=1)
print("claimed:", [c["property_id"] for c in checks])
