#!/usr/bin/env python3
"""Audit (documentation aid): for every property, which functions of its anchored files are mentioned by no obligation
of its check (by obligation key or by a site's file:line).  Prints the untouched functions so they can be read."""
import bisect
import collections
import json
import os
import re
import sys

VERIF = os.path.dirname(os.path.dirname(os.path.abspath(__file__)))
sys.path.insert(0, VERIF)
from rules import mir  # noqa

P = mir.Program("K1")
props = [json.loads(l) for l in open(os.path.join(VERIF, "properties.jsonl"))]
by_file = collections.defaultdict(list)
for b in P.bodies.values():
    if b.is_closure or b.kind in ("Const", "Static", "AnonConst", "InlineConst", "AssocConst"):
        continue
    m = re.match(r"(.*):(\d+)$", b.span or "")
    if not m:
        continue
    by_file[m.group(1)].append((int(m.group(2)), b.key))
for f in by_file:
    by_file[f].sort()

only = sys.argv[1:]
for p in props:
    pid = p["id"]
    if only and pid not in only:
        continue
    ev = json.load(open(os.path.join(VERIF, "evidence", pid + ".json")))
    touched = set()
    text = json.dumps(ev["coverage"]["all_obligations"]) + json.dumps(ev["coverage"].get("samples", []))
    raw = json.load(open(os.path.join(VERIF, "evidence", pid + ".json")))
    # sites are only in samples (first 12); use the full obligations file if the check wrote one
    full = os.path.join(VERIF, ".work", "obligations", pid + ".json")
    sites = []
    if os.path.exists(full):
        for o in json.load(open(full)):
            sites += o.get("sites") or []
            text += o["key"]
    for s in re.findall(r"([\w/\.]+\.rs):(\d+)", " ".join(map(str, sites)) + text):
        f, ln = s[0], int(s[1])
        lst = by_file.get(f)
        if lst:
            i = bisect.bisect_right(lst, (ln, "￿")) - 1
            if i >= 0:
                touched.add(lst[i][1])
    files = p["anchors"]["files"]
    out = []
    for f in files:
        for ln, key in by_file.get(f, []):
            short = key.split("::")[-1]
            if key in touched or key in text or (len(short) > 6 and short in text):
                continue
            out.append("%s:%d %s" % (f, ln, key))
    print("== %s: %d untouched functions in anchored files" % (pid, len(out)))
    for o in out:
        print("   ", o)
